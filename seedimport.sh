#!/bin/bash
# seedimport.sh <prop> <src change dir> <id> <needs...> : keep a confirmed seeded change under /verif/seeded/<id>/
PROP=$1; SRC=$2; ID=$3; shift 3; NEEDS="$*"
D=/verif/seeded/$ID; mkdir -p $D
cp $SRC/patch.diff $D/patch.diff; cp $SRC/demo.cpp $D/demo.cpp; cp $SRC/notes.md $D/notes.md 2>/dev/null
python3 - "$PROP" "$D" "$NEEDS" <<'PY'
import json,sys
prop,d,needs=sys.argv[1:4]
json.dump({"property":prop,"needs":needs,"origin":"independent sub-agent given only the property text and a scratch worktree",
 "confirmed":"seedconfirm.sh: patch applies to HEAD, CMake build with -Wall -Wextra -pedantic -Werror is warning-free, ctest 100% (293 gtest cases), demo exits non-zero with the change and 0 without",
 "expect":"caught","tier":"quick"},open(d+"/meta.json","w"),indent=1)
PY
