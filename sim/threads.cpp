// threads.cpp -- C19: separate codec instances used concurrently.
// A C19 plan holds 2-4 thread workloads (items tagged th=<n>, each with its own cfg item naming the
// generator family it came from) plus the scheduler configuration. Every workload is first executed alone
// (reference digest), then all of them on real threads under the seeded scheduler (sched variant) or
// free-running (tsan variant).
#include <functional>
#include <thread>

#include "exec.h"
#include "world_int.h"
#include "sched.h"
#include "wire.h"
#include "adapter.h"

namespace sim
{
void simClockEnable(bool on);
void simClockSet(uint64_t ns);

static std::vector<std::pair<uint64_t, int>> g_lastSwitchLog;
const std::vector<std::pair<uint64_t, int>>& lastSwitchLog()
{
    return g_lastSwitchLog;
}

static std::vector<Plan> splitThreads(const Plan& plan, int n)
{
    std::vector<Plan> subs(static_cast<size_t>(n));
    for (int t = 0; t < n; ++t)
    {
        Plan& s = subs[static_cast<size_t>(t)];
        s.seed = plan.seed;
        s.idx = plan.idx;
        s.prop = "C19";
        for (auto& it : plan.items)
        {
            if (!it.has("th") || it.get("th") != t)
                continue;
            Item c = it;
            if (c.tag == "cfg")
            {
                c.erase("locale");  // the global locale is process state: not changed while several threads run
                c.erase("cmpfb");   // derived frames / calls depend on every value the code compares - also on benign process-wide
                                     // counters a neighbour has touched: they would make a workload differ from itself run alone
                if (plan.cfgGet("shareinput", 0))
                    c.set("shareinput", 1);
                char buf[8];
                snprintf(buf, sizeof buf, "C%02d", static_cast<int>(c.get("propn", 1)));
                s.prop = buf;
            }
            s.items.push_back(std::move(c));
        }
        // cfg first
        std::stable_sort(s.items.begin(), s.items.end(), [](const Item& a, const Item& b) { return (a.tag == "cfg") > (b.tag == "cfg"); });
    }
    return subs;
}

// ------------------------------------------------------------------------------------------------ instances
// C19, second engine (asan variant): "... produce exactly the results each would produce alone". The same 2-4 workloads,
// each with its own Encoder / Decoder / Status objects, are executed on ONE thread, interleaved operation by operation in a
// seeded order - the coarsest of all schedules - and, at one seeded point, NEIGHBOUR instances (a fresh decoder, encoder,
// tracker) do a large amount of work in between (cfg nbflood: up to a few hundred thousand frames). Every workload's
// digest must equal the digest of the same workload run alone. What this engine sees and the scheduled one cannot:
// influence between instances that travels through correctly SYNCHRONISED process-wide state (atomics, mutex-protected
// or thread_local caches, counters and clocks) - no data race, so no thr.conflict - and that needs far more work by the
// neighbour than an instrumented thread workload can do. What it cannot see: data races (the scheduled engine's business).
static void neighbourFlood(uint64_t frames, uint64_t seed, RunResult& out)
{
    lib::Dec dec;
    lib::Enc enc;
    lib::Stat stat;
    enc.setDev(0x4E42);
    enc.setStream(0x7E);
    Bytes f;
    for (uint64_t i = 0; i < frames; ++i)
    {
        const uint64_t r = mix64(seed + i * 0x9E3779B97F4A7C15ULL);
        const size_t len = (r >> 32) % 24;
        f.assign(wire::CMP_HDR + wire::MSG_HDR + len, static_cast<uint8_t>(r >> 40));
        wire::CmpHdr h;
        h.version = 1;
        h.dev = static_cast<uint16_t>((r >> 8) % 97);
        h.stream = static_cast<uint8_t>((r >> 16) % 5);
        h.mtype = 1;
        h.ctr = static_cast<uint16_t>(i);
        wire::writeCmpHdr(f.data(), h);
        wire::MsgHdr m;
        m.ts = i;
        m.id32 = 7;
        const unsigned kind = r % 16;
        m.flags = kind == 0 ? wire::SEG_FIRST : kind == 1 ? wire::SEG_MID : kind == 2 ? wire::SEG_LAST : wire::SEG_NONE;
        m.ptype = 0x20;
        m.plen = static_cast<uint16_t>(len);
        wire::writeMsgHdr(f.data() + wire::CMP_HDR, m);
        auto pk = dec.decode(f.data(), f.size());
        if ((i & 1023) == 0)
        {
            for (auto& p : pk)
                stat.update(p);
            lib::MsgSpec s;
            s.version = 1;
            s.mtype = 1;
            s.ptype = 0x20;
            s.ts = i;
            s.id32 = 3;
            s.flags = 0;
            s.payload = f.data();
            s.len = 8 + len;
            (void) enc.encode({s}, 0, (i & 2048) ? 30 : 1500, static_cast<int>((i >> 12) & 3));
        }
    }
    out.probes["neighbour-instance-frames"] += frames;
    out.apiCalls += frames;
}

RunResult execInstances(const Plan& plan)
{
    RunResult out;
    const int n = static_cast<int>(std::min<int64_t>(std::max<int64_t>(1, plan.cfgGet("nthreads", 2)), 4));
    std::vector<Plan> subs = splitThreads(plan, n);
    for (auto& sp : subs)
        for (auto& it : sp.items)
            if (it.tag == "cfg")
                it.set("keepall", 1);
    std::vector<std::unique_ptr<World>> w(static_cast<size_t>(n));
    std::vector<size_t> nOps(static_cast<size_t>(n), 0), pos(static_cast<size_t>(n), 0);
    size_t totalOps = 0;
    simClockEnable(true);
    simClockSet(0);
    for (int t = 0; t < n; ++t)
    {
        w[static_cast<size_t>(t)] = std::make_unique<World>(subs[static_cast<size_t>(t)]);
        for (auto& it : subs[static_cast<size_t>(t)].items)
            nOps[static_cast<size_t>(t)] += it.tag == "op";
        totalOps += nOps[static_cast<size_t>(t)];
    }
    Rng r(static_cast<uint64_t>(plan.cfgGet("schedseed", 1)), "instances");
    const uint64_t flood = static_cast<uint64_t>(std::max<int64_t>(0, plan.cfgGet("nbflood", 0)));
    const size_t floodAfter = flood ? static_cast<size_t>(r.below(totalOps + 1)) : static_cast<size_t>(-1);
    size_t done = 0;
    bool flooded = false;
    uint64_t order = 0xC19;
    for (;;)
    {
        if (flood && !flooded && done >= floodAfter)
        {
            neighbourFlood(flood, r.next(), out);
            flooded = true;
        }
        std::vector<int> cand;
        for (int t = 0; t < n; ++t)
            if (pos[static_cast<size_t>(t)] < nOps[static_cast<size_t>(t)])
                cand.push_back(t);
        if (cand.empty())
            break;
        const int t = cand[r.below(cand.size())];
        const size_t ti = static_cast<size_t>(t);
        const size_t chunk = 1 + r.below(3);
        const size_t to = std::min(nOps[ti], pos[ti] + chunk);
        if (r.chance(1, 3))
        {
            // this chunk runs on a thread of its own that ENDS before anything else happens (sequential, so still one
            // schedule): whatever the library keeps per thread dies with it, while the packets it handed out live on in the
            // world and are looked at again later, on this thread (ASan sees them if they did not really own their memory)
            World* wp = w[ti].get();
            const size_t a = pos[ti];
            std::thread helper(
                [wp, a, to]
                {
                    simClockEnable(true);
                    wp->runOps(a, to);
                    simClockEnable(false);
                });
            helper.join();
            out.probes["chunk-on-a-thread-that-ended"] += 1;
        }
        else
            w[ti]->runOps(pos[ti], to);
        done += to - pos[ti];
        pos[ti] = to;
        if (r.chance(1, 2))
            w[ti]->deliverDue(r.below(4), pos[ti]);  // stop in the middle of what is in flight (a reassembly, say)
        order = hashU64((static_cast<uint64_t>(t) << 8) | chunk, order);
    }
    if (flood && !flooded)
        neighbourFlood(flood, r.next(), out);
    std::vector<RunResult> res(static_cast<size_t>(n));
    for (int t = 0; t < n; ++t)
    {
        w[static_cast<size_t>(t)]->finishRun();
        res[static_cast<size_t>(t)] = std::move(w[static_cast<size_t>(t)]->res);
    }
    w.clear();
    simClockEnable(false);
    out.interleaveHash = order;
    out.stateHashes.push_back(order);
    out.probes["instances-interleaved-on-one-thread"] += 1;
    out.eventHash = 0xC19;
    for (int t = 0; t < n; ++t)
    {
        RunResult solo = execPlan(subs[static_cast<size_t>(t)]);
        const RunResult& rr = res[static_cast<size_t>(t)];
        out.eventHash = hashU64(rr.eventHash, out.eventHash);
        if (rr.eventHash != solo.eventHash)
        {
            Violation v;
            v.prop = plan.prop;
            v.rule = "inst.diverged";
            v.detail = "workload " + std::to_string(t) + " (" + subs[static_cast<size_t>(t)].prop + " family), interleaved with other instances on one thread" +
                       (flood ? " (a neighbour decoded " + std::to_string(flood) + " frames in between)" : "") + ", produced results different from the same workload run alone";
            out.viol.push_back(v);
        }
        for (auto& wv : rr.viol)
            if (wv.rule.rfind("own.", 0) == 0 || wv.rule.rfind("crash.", 0) == 0)
            {
                // (what a workload's own ownership oracle saw: a packet that changed after the thread that produced it ended)
                Violation v = wv;
                v.prop = plan.prop;
                out.viol.push_back(v);
            }
        for (auto& kv : rr.probes)
            out.probes[kv.first] += kv.second;
        out.apiCalls += rr.apiCalls + solo.apiCalls;
        out.deliveries += rr.deliveries + solo.deliveries;
        out.simTimeUs += rr.simTimeUs;
    }
    return out;
}

RunResult execThreads(const Plan& plan)
{
    RunResult out;
    const int n = static_cast<int>(std::min<int64_t>(std::max<int64_t>(1, plan.cfgGet("nthreads", 2)), 4));
    std::vector<Plan> subs = splitThreads(plan, n);
    // The threaded phase comes FIRST, on cold process state (the worker forks a child per run): lazily initialised or
    // grow-on-demand statics are then first touched concurrently, as they would be in production. The reference
    // executions (every workload alone) follow afterwards.
    std::vector<uint64_t> solo(static_cast<size_t>(n));
    std::vector<RunResult> res(static_cast<size_t>(n));
    std::vector<std::function<void()>> bodies;
    // "cloned start": every thread's workload is begun on this thread, then the objects under test (decoder, encoders,
    // status tracker) of every thread are replaced by COPIES of one prototype's - made before the threads start -, and
    // the threads continue from there. Copies are separate instances: they must not share anything.
    size_t clonePrefix = static_cast<size_t>(std::max<int64_t>(0, plan.cfgGet("clone", 0)));
    if (clonePrefix)
    {
        // only sound when every thread runs the very same workload (the prototype is then in the state each of them expects)
        auto textOf = [](const Plan& sp)
        {
            Plan c = sp;
            for (auto& it : c.items)
                it.erase("th");
            return planToText(c);
        };
        const std::string first = textOf(subs[0]);
        for (int t = 1; t < n; ++t)
            if (textOf(subs[static_cast<size_t>(t)]) != first)
                clonePrefix = 0;
    }
    std::vector<std::unique_ptr<World>> worlds(static_cast<size_t>(n));
    if (clonePrefix)
    {
        // ... and interrupted between two deliveries: "clonedeliv" of the frames in flight are delivered first, so that
        // the copies are made in the middle of whatever those frames belong to (a reassembly, say)
        const size_t cloneDeliv = static_cast<size_t>(std::max<int64_t>(0, plan.cfgGet("clonedeliv", 0)));
        simClockEnable(true);
        World proto(subs[0]);
        proto.runOps(0, clonePrefix);
        proto.deliverDue(cloneDeliv, clonePrefix);
        for (int t = 0; t < n; ++t)
        {
            auto& w = worlds[static_cast<size_t>(t)];
            w = std::make_unique<World>(subs[static_cast<size_t>(t)]);
            w->runOps(0, clonePrefix);
            w->deliverDue(cloneDeliv, clonePrefix);
            w->adoptCopiesFrom(proto);
        }
        out.probes["cloned-start"] += 1;
    }
    for (int t = 0; t < n; ++t)
    {
        if (clonePrefix)
            bodies.push_back(
                [&res, &worlds, t, clonePrefix]
                {
                    World& w = *worlds[static_cast<size_t>(t)];
                    simClockEnable(true);
                    w.runOps(clonePrefix, static_cast<size_t>(-1));
                    w.finishRun();
                    res[static_cast<size_t>(t)] = std::move(w.res);
                });
        else
            bodies.push_back([&res, &subs, t] { res[static_cast<size_t>(t)] = execPlan(subs[static_cast<size_t>(t)]); });
    }
#if defined(SIM_VARIANT_SCHED)
    sched::Config cfg;
    cfg.seed = static_cast<uint64_t>(plan.cfgGet("schedseed", 1));
    cfg.meanRun = plan.cfgGet("mean", 100);
    cfg.mode = static_cast<int>(plan.cfgGet("mode", 0));
    cfg.points = static_cast<int>(plan.cfgGet("points", 3));
    for (auto& it : plan.items)
        if (it.tag == "op" && it.get("k") == 20)
        {
            cfg.useExplicit = true;
            cfg.explicitSwitches.emplace_back(static_cast<uint64_t>(it.get("at")), static_cast<int>(it.get("to")));
        }
    if (plan.cfgGet("explicit", 0))
        cfg.useExplicit = true;
    std::sort(cfg.explicitSwitches.begin(), cfg.explicitSwitches.end());
    if (cfg.mode == 1 && !cfg.useExplicit)
        cfg.horizon = static_cast<uint64_t>(plan.cfgGet("horizon", 60000));  // (counting by a dry run would warm the process state)
    sched::Report rep = sched::runThreads(cfg, bodies);
    g_lastSwitchLog = rep.switchLog;
    out.interleaveHash = rep.scheduleHash;
    out.probes["scheduled-run"] += 1;
    out.probes["yield-points"] += rep.yields;
    out.probes["thread-switches"] += rep.switches;
    out.probes["recorded-accesses"] += rep.accesses;
    if (rep.preemptedInsideLibrary)
        out.probes["preempted-inside-library"] += 1;
    if (rep.switches >= 10)
        out.probes["ten-or-more-switches"] += 1;
    out.stateHashes.push_back(rep.scheduleHash);
    for (auto& c : rep.conflicts)
    {
        Violation v;
        v.prop = plan.prop;
        v.rule = "thr.conflict";
        v.detail = c;
        out.viol.push_back(v);
        break;
    }
    if (!rep.conflicts.empty() && rep.conflicts.size() > 1)
        out.viol[0].detail += " | " + rep.conflicts.back();
    out.simTimeUs += rep.yields;  // "time" of the threaded phase = yield points
#else
    {
        std::vector<std::thread> th;
        for (int t = 0; t < n; ++t)
            th.emplace_back(bodies[static_cast<size_t>(t)]);
        for (auto& t : th)
            t.join();
        out.probes["free-running-threads"] += 1;
    }
#endif
    for (int t = 0; t < n; ++t)
    {
        RunResult r = execPlan(subs[static_cast<size_t>(t)]);
        solo[static_cast<size_t>(t)] = r.eventHash;
        out.apiCalls += r.apiCalls;
        out.deliveries += r.deliveries;
        out.simTimeUs += r.simTimeUs;
    }
    out.eventHash = 0xC19;
    for (int t = 0; t < n; ++t)
    {
        const RunResult& r = res[static_cast<size_t>(t)];
        out.eventHash = hashU64(r.eventHash, out.eventHash);
        if (r.eventHash != solo[static_cast<size_t>(t)])
        {
            Violation v;
            v.prop = plan.prop;
            v.rule = "thr.digest";
            v.detail = "thread " + std::to_string(t) + " (" + subs[static_cast<size_t>(t)].prop + " workload) produced results different from the same workload run alone";
            out.viol.push_back(v);
        }
        for (auto& kv : r.probes)
            out.probes[kv.first] += kv.second;
        out.apiCalls += r.apiCalls;
        out.deliveries += r.deliveries;
    }
    return out;
}

}  // namespace sim
