// threads.cpp -- C19 (placeholder until the scheduler is linked)
#include "exec.h"
namespace sim
{
RunResult execThreads(const Plan& plan)
{
    return execPlan(plan);
}
}  // namespace sim
