// threads.cpp -- C19: separate codec instances used concurrently.
// A C19 plan holds 2-4 thread workloads (items tagged th=<n>, each with its own cfg item naming the
// generator family it came from) plus the scheduler configuration. Every workload is first executed alone
// (reference digest), then all of them on real threads under the seeded scheduler (sched variant) or
// free-running (tsan variant).
#include <functional>
#include <thread>

#include "exec.h"
#include "world_int.h"
#include "sched.h"

namespace sim
{
void simClockEnable(bool on);
void simClockSet(uint64_t ns);

static std::vector<std::pair<uint64_t, int>> g_lastSwitchLog;
const std::vector<std::pair<uint64_t, int>>& lastSwitchLog()
{
    return g_lastSwitchLog;
}

static std::vector<Plan> splitThreads(const Plan& plan, int n)
{
    std::vector<Plan> subs(static_cast<size_t>(n));
    for (int t = 0; t < n; ++t)
    {
        Plan& s = subs[static_cast<size_t>(t)];
        s.seed = plan.seed;
        s.idx = plan.idx;
        s.prop = "C19";
        for (auto& it : plan.items)
        {
            if (!it.has("th") || it.get("th") != t)
                continue;
            Item c = it;
            if (c.tag == "cfg")
            {
                c.erase("locale");  // the global locale is process state: not changed while several threads run
                if (plan.cfgGet("shareinput", 0))
                    c.set("shareinput", 1);
                char buf[8];
                snprintf(buf, sizeof buf, "C%02d", static_cast<int>(c.get("propn", 1)));
                s.prop = buf;
            }
            s.items.push_back(std::move(c));
        }
        // cfg first
        std::stable_sort(s.items.begin(), s.items.end(), [](const Item& a, const Item& b) { return (a.tag == "cfg") > (b.tag == "cfg"); });
    }
    return subs;
}

RunResult execThreads(const Plan& plan)
{
    RunResult out;
    const int n = static_cast<int>(std::min<int64_t>(std::max<int64_t>(1, plan.cfgGet("nthreads", 2)), 4));
    std::vector<Plan> subs = splitThreads(plan, n);
    // The threaded phase comes FIRST, on cold process state (the worker forks a child per run): lazily initialised or
    // grow-on-demand statics are then first touched concurrently, as they would be in production. The reference
    // executions (every workload alone) follow afterwards.
    std::vector<uint64_t> solo(static_cast<size_t>(n));
    std::vector<RunResult> res(static_cast<size_t>(n));
    std::vector<std::function<void()>> bodies;
    // "cloned start": every thread's workload is begun on this thread, then the objects under test (decoder, encoders,
    // status tracker) of every thread are replaced by COPIES of one prototype's - made before the threads start -, and
    // the threads continue from there. Copies are separate instances: they must not share anything.
    size_t clonePrefix = static_cast<size_t>(std::max<int64_t>(0, plan.cfgGet("clone", 0)));
    if (clonePrefix)
    {
        // only sound when every thread runs the very same workload (the prototype is then in the state each of them expects)
        auto textOf = [](const Plan& sp)
        {
            Plan c = sp;
            for (auto& it : c.items)
                it.erase("th");
            return planToText(c);
        };
        const std::string first = textOf(subs[0]);
        for (int t = 1; t < n; ++t)
            if (textOf(subs[static_cast<size_t>(t)]) != first)
                clonePrefix = 0;
    }
    std::vector<std::unique_ptr<World>> worlds(static_cast<size_t>(n));
    if (clonePrefix)
    {
        // ... and interrupted between two deliveries: "clonedeliv" of the frames in flight are delivered first, so that
        // the copies are made in the middle of whatever those frames belong to (a reassembly, say)
        const size_t cloneDeliv = static_cast<size_t>(std::max<int64_t>(0, plan.cfgGet("clonedeliv", 0)));
        simClockEnable(true);
        World proto(subs[0]);
        proto.runOps(0, clonePrefix);
        proto.deliverDue(cloneDeliv, clonePrefix);
        for (int t = 0; t < n; ++t)
        {
            auto& w = worlds[static_cast<size_t>(t)];
            w = std::make_unique<World>(subs[static_cast<size_t>(t)]);
            w->runOps(0, clonePrefix);
            w->deliverDue(cloneDeliv, clonePrefix);
            w->adoptCopiesFrom(proto);
        }
        out.probes["cloned-start"] += 1;
    }
    for (int t = 0; t < n; ++t)
    {
        if (clonePrefix)
            bodies.push_back(
                [&res, &worlds, t, clonePrefix]
                {
                    World& w = *worlds[static_cast<size_t>(t)];
                    simClockEnable(true);
                    w.runOps(clonePrefix, static_cast<size_t>(-1));
                    w.finishRun();
                    res[static_cast<size_t>(t)] = std::move(w.res);
                });
        else
            bodies.push_back([&res, &subs, t] { res[static_cast<size_t>(t)] = execPlan(subs[static_cast<size_t>(t)]); });
    }
#if defined(SIM_VARIANT_SCHED)
    sched::Config cfg;
    cfg.seed = static_cast<uint64_t>(plan.cfgGet("schedseed", 1));
    cfg.meanRun = plan.cfgGet("mean", 100);
    cfg.mode = static_cast<int>(plan.cfgGet("mode", 0));
    cfg.points = static_cast<int>(plan.cfgGet("points", 3));
    for (auto& it : plan.items)
        if (it.tag == "op" && it.get("k") == 20)
        {
            cfg.useExplicit = true;
            cfg.explicitSwitches.emplace_back(static_cast<uint64_t>(it.get("at")), static_cast<int>(it.get("to")));
        }
    if (plan.cfgGet("explicit", 0))
        cfg.useExplicit = true;
    std::sort(cfg.explicitSwitches.begin(), cfg.explicitSwitches.end());
    if (cfg.mode == 1 && !cfg.useExplicit)
        cfg.horizon = static_cast<uint64_t>(plan.cfgGet("horizon", 60000));  // (counting by a dry run would warm the process state)
    sched::Report rep = sched::runThreads(cfg, bodies);
    g_lastSwitchLog = rep.switchLog;
    out.interleaveHash = rep.scheduleHash;
    out.probes["scheduled-run"] += 1;
    out.probes["yield-points"] += rep.yields;
    out.probes["thread-switches"] += rep.switches;
    out.probes["recorded-accesses"] += rep.accesses;
    if (rep.preemptedInsideLibrary)
        out.probes["preempted-inside-library"] += 1;
    if (rep.switches >= 10)
        out.probes["ten-or-more-switches"] += 1;
    out.stateHashes.push_back(rep.scheduleHash);
    for (auto& c : rep.conflicts)
    {
        Violation v;
        v.prop = plan.prop;
        v.rule = "thr.conflict";
        v.detail = c;
        out.viol.push_back(v);
        break;
    }
    if (!rep.conflicts.empty() && rep.conflicts.size() > 1)
        out.viol[0].detail += " | " + rep.conflicts.back();
    out.simTimeUs += rep.yields;  // "time" of the threaded phase = yield points
#else
    {
        std::vector<std::thread> th;
        for (int t = 0; t < n; ++t)
            th.emplace_back(bodies[static_cast<size_t>(t)]);
        for (auto& t : th)
            t.join();
        out.probes["free-running-threads"] += 1;
    }
#endif
    for (int t = 0; t < n; ++t)
    {
        RunResult r = execPlan(subs[static_cast<size_t>(t)]);
        solo[static_cast<size_t>(t)] = r.eventHash;
        out.apiCalls += r.apiCalls;
        out.deliveries += r.deliveries;
        out.simTimeUs += r.simTimeUs;
    }
    out.eventHash = 0xC19;
    for (int t = 0; t < n; ++t)
    {
        const RunResult& r = res[static_cast<size_t>(t)];
        out.eventHash = hashU64(r.eventHash, out.eventHash);
        if (r.eventHash != solo[static_cast<size_t>(t)])
        {
            Violation v;
            v.prop = plan.prop;
            v.rule = "thr.digest";
            v.detail = "thread " + std::to_string(t) + " (" + subs[static_cast<size_t>(t)].prop + " workload) produced results different from the same workload run alone";
            out.viol.push_back(v);
        }
        for (auto& kv : r.probes)
            out.probes[kv.first] += kv.second;
        out.apiCalls += r.apiCalls;
        out.deliveries += r.deliveries;
    }
    return out;
}

}  // namespace sim
