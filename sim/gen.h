// gen.h -- seed -> plan. All randomness of a run is spent here.
#pragma once
#include <string>

#include "plan.h"

namespace sim
{

uint64_t runSeed(uint64_t batchSeed, const std::string& prop, uint64_t idx);
// tier: 0 quick, 1 thorough
Plan generate(const std::string& prop, int tier, uint64_t batchSeed, uint64_t idx);
bool knownProperty(const std::string& prop);

}  // namespace sim
