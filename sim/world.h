// world.h -- executing a plan: the simulated Ethernet segment with its nodes, fault
// operators, the receiver, and the oracles. Execution is a pure function of the plan.
#pragma once
#include <cstdint>
#include <map>
#include <string>
#include <vector>

#include "plan.h"

namespace sim
{

// op kinds (item "op", key k)
enum OpKind
{
    OP_ENC = 1,        // capture module (real Encoder) encodes a batch
    OP_RAWSEG = 2,     // stub peer sends one well-formed segmented message (one frame per "s" sub-item)
    OP_RAW = 3,        // stub peer sends one frame with arbitrary messages
    OP_TECMP = 4,      // stub TECMP device sends one frame
    OP_NOISE = 5,      // garbage buffer
    OP_STALE = 6,      // an old frame is delivered again
    OP_RXRESTART = 7,  // receiver restart: decoder destroyed and recreated
    OP_CMSET = 8,      // capture module reconfigure / restart (what: 0 device, 1 stream, 2 restart)
    OP_STATUS = 9,     // operator action on the status tracker (what: 1 remove device, 2 remove interface, 3 clear)
    OP_BUILD = 10,     // payload builder step (C13)
    OP_PROBE = 11,     // direct validity probe of a faulted payload (C03)
    OP_STATUPD = 12,   // Status::update with a packet assembled through the API (not decoded from the wire)
    OP_LIFE = 13       // object lifecycle event: obj 0 receiver's decoder, 1 a capture module's encoder (node=), 2 status tracker; how 1..8 (adapter.cpp)
};

// fault operators (sub-item "f", key type)
enum FaultKind
{
    F_DROP = 1,
    F_DUP = 2,         // a = extra delay of the copy
    F_DELAY = 3,       // a = extra delay
    F_TRUNC = 4,       // a = bytes kept (clamped)
    F_PAD = 5,         // a = bytes appended, b = 0 zero / else garbage seed
    F_FLIP = 6,        // a = offset (mod size), b = xor mask
    F_SETFIELD = 7,    // a = field code, b = message index, c = value
    F_SPLICE = 8,      // a = history index, b = cut position
    F_CORRUPT_VER = 9, // a = new version (segment frames only; 0 is mapped to 2)
    F_CORRUPT_TYPE = 10,  // a = new message type (segment frames only)
    F_PARTITION = 11,  // like drop, counted separately (generated for an interval)
    F_ALLOCFAIL = 12   // a = k: the k-th allocation inside the decode call for this frame fails (std::bad_alloc); C02 only
};

// fields F_SETFIELD can address
enum FieldCode
{
    FLD_VERSION = 1,
    FLD_MTYPE = 2,
    FLD_CTR = 3,
    FLD_MSG_PLEN = 4,
    FLD_MSG_PTYPE = 5,
    FLD_MSG_FLAGS = 6,
    FLD_INNER_LEN = 7,     // data length of CAN/CAN-FD/LIN/Ethernet, first string length of cm status, stream-id count of if status
    FLD_INNER_LEN2 = 8,    // vendor-data length / later string lengths (c >> 16 selects which)
    FLD_TECMP_PLEN = 9,
    FLD_TECMP_INNER = 10,
    FLD_TECMP_MTYPE = 11,
    FLD_TECMP_DTYPE = 12,
    FLD_DEVICE = 13,
    FLD_STREAM = 14
};

struct Violation
{
    std::string prop;
    std::string rule;
    std::string detail;
    int op{-1};
    std::string sig() const
    {
        return prop + " " + rule;
    }
};

struct RunResult
{
    std::vector<Violation> viol;
    uint64_t eventHash{0};     // digest of every output the run produced (frames, packets, builder bytes)
    uint64_t interleaveHash{0};  // digest of the delivered endpoint sequence
    std::vector<uint64_t> stateHashes;  // model states reached after each delivery
    std::map<std::string, uint64_t> probes;
    std::map<std::string, uint64_t> faults;
    uint64_t simTimeUs{0};
    uint64_t deliveries{0};
    uint64_t apiCalls{0};
    bool nontrivial{false};
};

// hook for C20 mechanism B: called with every output buffer (frames, payload bytes)
using OutputTap = void (*)(const void* data, size_t n, const char* what);
void setOutputTap(OutputTap tap);

RunResult execPlan(const Plan& plan);
// basic-block edges of library code executed so far in this process (asan variant; 0 elsewhere)
uint64_t edgeCount();
// comparison operands recorded during one library call (edgecount.cpp; asan variant only, empty elsewhere)
namespace cmpfb
{
struct Operand
{
    uint64_t constant;
    uint64_t observed;
    int width;  // bytes
    bool variable{false};  // both operands were variables (a relation between two values, not a constant)
};
void arm(std::vector<Operand>* sink);
void disarm();
}  // namespace cmpfb

// which rule ids are "probes" that make a run non-trivial, per property (documentation for evidence)
const char* nontrivialRule(const std::string& prop);

}  // namespace sim
