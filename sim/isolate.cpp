#include <chrono>
#include "isolate.h"

#include <poll.h>
#include <signal.h>
#include <sys/wait.h>
#include <unistd.h>

#include <algorithm>
#include <cstdio>
#include <cstdlib>
#include <cstring>
#include <sstream>

#include "exec.h"
#include "world.h"

namespace sim
{

size_t countOps(const Plan& p)
{
    size_t n = 0;
    for (auto& i : p.items)
        if (i.tag == "op")
            ++n;
    return n;
}

// Reads both pipes of a child until it closes them. The child arms its own watchdog (alarm); this is the second line:
// if the pipes are still open graceSec after that watchdog should have fired, the child is killed from here (a child
// that spins with the alarm lost, or a grandchild that inherited the pipes, would otherwise block its parent forever).
static bool readBothOrKill(int fdA, std::string& a, int fdB, std::string& b, pid_t pid, int timeoutSec, int graceSec = 10)
{
    const auto deadline = std::chrono::steady_clock::now() + std::chrono::seconds(timeoutSec + graceSec);
    bool openA = true, openB = true, killed = false;
    char buf[4096];
    while (openA || openB)
    {
        struct pollfd pf[2];
        int n = 0;
        if (openA)
        {
            pf[n].fd = fdA;
            pf[n].events = POLLIN;
            pf[n].revents = 0;
            ++n;
        }
        if (openB)
        {
            pf[n].fd = fdB;
            pf[n].events = POLLIN;
            pf[n].revents = 0;
            ++n;
        }
        const auto now = std::chrono::steady_clock::now();
        if (now >= deadline)
        {
            if (!killed)
            {
                kill(pid, SIGKILL);
                killed = true;
            }
            // a grandchild may still hold the pipes open: do not wait for it
            break;
        }
        const int waitMs = static_cast<int>(std::min<long long>(1000, std::chrono::duration_cast<std::chrono::milliseconds>(deadline - now).count() + 1));
        const int r = poll(pf, static_cast<nfds_t>(n), waitMs);
        if (r <= 0)
            continue;
        for (int i = 0; i < n; ++i)
        {
            if (!(pf[i].revents & (POLLIN | POLLHUP | POLLERR)))
                continue;
            const ssize_t k = read(pf[i].fd, buf, sizeof buf);
            std::string& dst = pf[i].fd == fdA ? a : b;
            bool& open = pf[i].fd == fdA ? openA : openB;
            if (k > 0)
                dst.append(buf, static_cast<size_t>(k));
            else
                open = false;
        }
    }
    return killed;
}

// crash signature from a sanitizer report: "<type>@<file>:<function>" of the first library frame
static std::string classifySanitizer(const std::string& err)
{
    std::string type = "unknown";
    size_t p = err.find("ERROR: AddressSanitizer: ");
    if (p != std::string::npos)
    {
        size_t b = p + strlen("ERROR: AddressSanitizer: ");
        size_t e = err.find_first_of(" \n", b);
        type = err.substr(b, e - b);
    }
    else if ((p = err.find("runtime error: ")) != std::string::npos)
    {
        size_t b = p + strlen("runtime error: ");
        size_t e = err.find('\n', b);
        std::string msg = err.substr(b, e - b);
        // keep the generic part only
        if (msg.find("null pointer") != std::string::npos)
            type = "ub-null-pointer";
        else if (msg.find("out of bounds") != std::string::npos)
            type = "ub-index-out-of-bounds";
        else if (msg.find("overflow") != std::string::npos)
            type = "ub-integer-overflow";
        else if (msg.find("shift") != std::string::npos)
            type = "ub-shift";
        else if (msg.find("load of value") != std::string::npos)
            type = "ub-invalid-value";
        else
            type = "ub";
    }
    // first frame inside the library
    std::string where;
    size_t pos = 0;
    while ((pos = err.find("\n    #", pos)) != std::string::npos)
    {
        size_t eol = err.find('\n', pos + 1);
        std::string line = err.substr(pos + 1, eol - pos - 1);
        pos = eol == std::string::npos ? err.size() : eol;
        if (line.find("/src/") == std::string::npos && line.find("/include/asam_cmp/") == std::string::npos)
            continue;
        if (line.find("/verif/") != std::string::npos)
            continue;
        size_t in = line.find(" in ");
        if (in == std::string::npos)
            continue;
        size_t fb = in + 4;
        // function name ends before " /path"
        size_t fe = line.find(" /", fb);
        std::string fn = line.substr(fb, fe == std::string::npos ? std::string::npos : fe - fb);
        size_t paren = fn.find('(');
        if (paren != std::string::npos)
            fn = fn.substr(0, paren);
        std::string file;
        if (fe != std::string::npos)
        {
            std::string path = line.substr(fe + 1);
            size_t colon = path.find(':');
            path = path.substr(0, colon);
            size_t slash = path.rfind('/');
            file = slash == std::string::npos ? path : path.substr(slash + 1);
        }
        where = file + ":" + fn;
        break;
    }
    if (where.empty() && type.rfind("ub", 0) == 0)
    {
        // UBSan without stack: take the file:line of the report
        size_t p2 = err.find("runtime error: ");
        size_t ls = err.rfind('\n', p2);
        std::string loc = err.substr(ls == std::string::npos ? 0 : ls + 1, p2 - (ls == std::string::npos ? 0 : ls + 1));
        size_t slash = loc.rfind('/');
        if (slash != std::string::npos)
            loc = loc.substr(slash + 1);
        size_t colon = loc.find(':');
        where = loc.substr(0, colon);
    }
    return type + "@" + (where.empty() ? "?" : where);
}

Outcome runIsolated(const Plan& plan, int timeoutSec)
{
    Outcome out;
    int resPipe[2], errPipe[2];
    if (pipe(resPipe) || pipe(errPipe))
    {
        out.sig = "harness pipe-failed";
        return out;
    }
    fflush(stdout);
    fflush(stderr);
    pid_t pid = fork();
    if (pid == 0)
    {
        close(resPipe[0]);
        close(errPipe[0]);
        dup2(errPipe[1], 2);
        close(errPipe[1]);
        alarm(static_cast<unsigned>(timeoutSec));
        RunResult r = execForProp(plan);
        std::string msg;
        if (!r.viol.empty())
            msg = r.viol[0].sig() + "\t" + r.viol[0].detail + "\t";
        else
            msg = "\t\t";
        msg += std::to_string(r.eventHash) + "\t" + std::to_string(r.viol.size()) + "\n";
        ssize_t w = write(resPipe[1], msg.data(), msg.size());
        (void) w;
        _exit(0);
    }
    close(resPipe[1]);
    close(errPipe[1]);
    // drain stderr first in a bounded way (reports are small), then the result
    std::string err, res;
    const bool killedByParent = readBothOrKill(errPipe[0], err, resPipe[0], res, pid, timeoutSec);
    close(resPipe[0]);
    close(errPipe[0]);
    int status = 0;
    waitpid(pid, &status, 0);
    if (killedByParent)
        status = SIGALRM;  // classified like the child's own watchdog
    if (WIFEXITED(status) && WEXITSTATUS(status) == 0 && !res.empty())
    {
        size_t a = res.find('\t'), b = res.find('\t', a + 1), c = res.find('\t', b + 1);
        out.sig = res.substr(0, a);
        out.detail = res.substr(a + 1, b - a - 1);
        out.eventHash = std::stoull(res.substr(b + 1, c - b - 1));
        out.violations = std::stoi(res.substr(c + 1));
        return out;
    }
    out.crashed = true;
    std::string rule;
    if (WIFSIGNALED(status) && WTERMSIG(status) == SIGALRM)
        rule = "crash.timeout";
    else if (WIFEXITED(status) && WEXITSTATUS(status) == 79)
        rule = "crash.timeout";
    else if (WIFEXITED(status) && WEXITSTATUS(status) == 78)
        rule = "crash.exception";
    else if (err.find("Sanitizer") != std::string::npos || err.find("runtime error:") != std::string::npos)
    {
        const std::string c = classifySanitizer(err);
        // a report without any library frame on its stack is a bug of the simulator, not of the code under test
        if (c.size() >= 2 && c.substr(c.size() - 2) == "@?" && err.find("/verif/sim/") != std::string::npos)
            rule = "harness.crash/" + c;
        else
            rule = "crash.sanitizer/" + c;
    }
    else if (WIFSIGNALED(status))
        rule = "crash.signal/" + std::to_string(WTERMSIG(status));
    else
        rule = "crash.exit/" + std::to_string(WIFEXITED(status) ? WEXITSTATUS(status) : -1);
    out.sig = plan.prop + " " + rule;
    // keep the informative head of the report
    size_t cut = std::min<size_t>(err.size(), 1800);
    out.detail = err.substr(0, cut);
    std::replace(out.detail.begin(), out.detail.end(), '\t', ' ');
    return out;
}

RunResult runForkedFull(const Plan& plan, int timeoutSec)
{
    RunResult out;
    int resPipe[2], errPipe[2];
    if (pipe(resPipe) || pipe(errPipe))
    {
        Violation v;
        v.prop = plan.prop;
        v.rule = "harness.pipe-failed";
        out.viol.push_back(v);
        return out;
    }
    fflush(stdout);
    fflush(stderr);
    pid_t pid = fork();
    if (pid == 0)
    {
        close(resPipe[0]);
        close(errPipe[0]);
        dup2(errPipe[1], 2);
        close(errPipe[1]);
        alarm(static_cast<unsigned>(timeoutSec));
        RunResult r = execForProp(plan);
        std::string msg;
        msg += "H\t" + std::to_string(r.eventHash) + "\t" + std::to_string(r.interleaveHash) + "\t" + std::to_string(r.simTimeUs) + "\t" +
               std::to_string(r.deliveries) + "\t" + std::to_string(r.apiCalls) + "\n";
        for (auto& v : r.viol)
        {
            std::string d = v.detail;
            std::replace(d.begin(), d.end(), '\n', ' ');
            std::replace(d.begin(), d.end(), '\t', ' ');
            msg += "V\t" + v.rule + "\t" + d + "\n";
        }
        for (auto& kv : r.probes)
            msg += "P\t" + kv.first + "\t" + std::to_string(kv.second) + "\n";
        for (auto& kv : r.faults)
            msg += "F\t" + kv.first + "\t" + std::to_string(kv.second) + "\n";
        for (size_t i = 0; i < r.stateHashes.size() && i < 64; ++i)
            msg += "S\t" + std::to_string(r.stateHashes[i]) + "\n";
        size_t off = 0;
        while (off < msg.size())
        {
            ssize_t w = write(resPipe[1], msg.data() + off, msg.size() - off);
            if (w <= 0)
                break;
            off += static_cast<size_t>(w);
        }
        _exit(0);
    }
    close(resPipe[1]);
    close(errPipe[1]);
    std::string res, err;
    const bool killedByParent = readBothOrKill(resPipe[0], res, errPipe[0], err, pid, timeoutSec);
    close(resPipe[0]);
    close(errPipe[0]);
    int status = 0;
    waitpid(pid, &status, 0);
    if (killedByParent)
        status = SIGALRM;  // classified like the child's own watchdog
    if (WIFEXITED(status) && WEXITSTATUS(status) == 0 && !res.empty())
    {
        std::istringstream is(res);
        std::string line;
        while (std::getline(is, line))
        {
            std::vector<std::string> f;
            size_t a = 0;
            for (;;)
            {
                size_t b = line.find('\t', a);
                f.push_back(line.substr(a, b == std::string::npos ? std::string::npos : b - a));
                if (b == std::string::npos)
                    break;
                a = b + 1;
            }
            if (f[0] == "H" && f.size() >= 6)
            {
                out.eventHash = std::stoull(f[1]);
                out.interleaveHash = std::stoull(f[2]);
                out.simTimeUs = std::stoull(f[3]);
                out.deliveries = std::stoull(f[4]);
                out.apiCalls = std::stoull(f[5]);
            }
            else if (f[0] == "V" && f.size() >= 3)
            {
                Violation v;
                v.prop = plan.prop;
                v.rule = f[1];
                v.detail = f[2];
                out.viol.push_back(v);
            }
            else if (f[0] == "P" && f.size() >= 3)
                out.probes[f[1]] = std::stoull(f[2]);
            else if (f[0] == "F" && f.size() >= 3)
                out.faults[f[1]] = std::stoull(f[2]);
            else if (f[0] == "S" && f.size() >= 2)
                out.stateHashes.push_back(std::stoull(f[1]));
        }
        return out;
    }
    // crashed: same classification as runIsolated
    Outcome o;
    {
        std::string rule;
        if ((WIFSIGNALED(status) && WTERMSIG(status) == SIGALRM) || (WIFEXITED(status) && WEXITSTATUS(status) == 79))
            rule = "crash.timeout";
        else if (WIFEXITED(status) && WEXITSTATUS(status) == 78)
            rule = "crash.exception";
        else if (err.find("Sanitizer") != std::string::npos || err.find("runtime error:") != std::string::npos)
            rule = "crash.sanitizer/" + classifySanitizer(err);
        else if (WIFSIGNALED(status))
            rule = "crash.signal/" + std::to_string(WTERMSIG(status));
        else
            rule = "crash.exit/" + std::to_string(WIFEXITED(status) ? WEXITSTATUS(status) : -1);
        Violation v;
        v.prop = plan.prop;
        v.rule = rule;
        v.detail = err.substr(0, std::min<size_t>(err.size(), 1200));
        std::replace(v.detail.begin(), v.detail.end(), '\t', ' ');
        out.viol.push_back(v);
    }
    return out;
}

// ------------------------------------------------------------------------------------------------ minimisation
namespace
{

struct Shrinker
{
    const std::string& sig;
    int budget;
    ShrinkStats& st;
    // wall-clock cap: a candidate of a hang (crash.timeout) costs a whole watchdog period, so the execution budget alone
    // would let the minimisation of one violation run for hours. Minimisation then simply stops earlier (the plan is larger).
    std::chrono::steady_clock::time_point deadline = std::chrono::steady_clock::now() + std::chrono::seconds(150);
    bool test(const Plan& p)
    {
        if (st.executions >= budget)
            return false;
        if (std::chrono::steady_clock::now() > deadline)
        {
            st.executions = budget;  // ends every loop of shrinkPlan
            return false;
        }
        st.executions++;
        Outcome o = runIsolated(p, 30);
        return o.sig == sig;
    }
};

std::vector<size_t> opIndexes(const Plan& p)
{
    std::vector<size_t> v;
    for (size_t i = 0; i < p.items.size(); ++i)
        if (p.items[i].tag == "op")
            v.push_back(i);
    return v;
}

Plan withoutItems(const Plan& p, const std::vector<size_t>& drop)
{
    Plan q = p;
    q.items.clear();
    size_t d = 0;
    for (size_t i = 0; i < p.items.size(); ++i)
    {
        if (d < drop.size() && drop[d] == i)
        {
            ++d;
            continue;
        }
        q.items.push_back(p.items[i]);
    }
    return q;
}

}  // namespace

Plan shrinkPlan(const Plan& plan, const std::string& sig, int budget, ShrinkStats& st)
{
    Shrinker sh{sig, budget, st};
    Plan cur = plan;
    st.opsBefore = countOps(plan);
    // 1. ddmin over ops
    {
        size_t chunk = std::max<size_t>(1, opIndexes(cur).size() / 2);
        while (chunk >= 1 && st.executions < budget)
        {
            bool removedAny = false;
            auto ops = opIndexes(cur);
            for (size_t start = 0; start < ops.size() && st.executions < budget;)
            {
                size_t end = std::min(ops.size(), start + chunk);
                std::vector<size_t> drop(ops.begin() + start, ops.begin() + end);
                Plan cand = withoutItems(cur, drop);
                if (countOps(cand) < countOps(cur) && sh.test(cand))
                {
                    cur = cand;
                    ops = opIndexes(cur);
                    removedAny = true;
                }
                else
                    start = end;
            }
            if (chunk == 1 && !removedAny)
                break;
            if (!removedAny || chunk > 1)
                chunk = chunk > 1 ? chunk / 2 : 1;
        }
    }
    // 2. drop sub-items (faults first, then messages / segments), one at a time
    for (int pass = 0; pass < 2; ++pass)
    {
        for (size_t i = 0; i < cur.items.size() && st.executions < budget; ++i)
        {
            if (cur.items[i].tag != "op")
                continue;
            for (size_t s = 0; s < cur.items[i].sub.size() && st.executions < budget;)
            {
                const bool isFault = cur.items[i].sub[s].tag == "f";
                if ((pass == 0) != isFault)
                {
                    ++s;
                    continue;
                }
                Plan cand = cur;
                cand.items[i].sub.erase(cand.items[i].sub.begin() + s);
                if (sh.test(cand))
                    cur = cand;
                else
                    ++s;
            }
        }
    }
    // 3. drop unused nodes
    for (size_t i = 0; i < cur.items.size() && st.executions < budget;)
    {
        if (cur.items[i].tag != "node")
        {
            ++i;
            continue;
        }
        Plan cand = withoutItems(cur, {i});
        if (sh.test(cand))
            cur = cand;
        else
            ++i;
    }
    // 4. argument shrinking: smaller numbers, dropped optional keys
    static const char* shrinkKeys[] = {"len", "n", "v", "max", "min", "trail", "rep", "s0", "s1", "s2", "s3", "crc", "a", "lat", "gap", "t", "ctr0"};
    static const char* dropKeys[] = {"flags", "ts", "ifid", "alt", "tfill", "build", "mode", "hdr", "ver", "trail", "junk", "p1o", "p2o", "rsv", "dflags", "xflags"};
    auto shrinkItem = [&](size_t i, int s)
    {
        auto itemRef = [&](Plan& p) -> Item& { return s < 0 ? p.items[i] : p.items[i].sub[static_cast<size_t>(s)]; };
        for (const char* k : dropKeys)
        {
            if (st.executions >= budget)
                return;
            if (!itemRef(cur).has(k) || itemRef(cur).get(k) == 0)
                continue;
            Plan cand = cur;
            itemRef(cand).erase(k);
            if (sh.test(cand))
                cur = cand;
        }
        for (const char* k : shrinkKeys)
        {
            if (!itemRef(cur).has(k))
                continue;
            for (int round = 0; round < 12 && st.executions < budget; ++round)
            {
                int64_t v = itemRef(cur).get(k);
                if (v <= 0)
                    break;
                bool improved = false;
                for (int64_t c : {int64_t(0), int64_t(1), v / 2, v - 1})
                {
                    if (c >= v || c < 0)
                        continue;
                    Plan cand = cur;
                    itemRef(cand).set(k, c);
                    if (sh.test(cand))
                    {
                        cur = cand;
                        improved = true;
                        break;
                    }
                }
                if (!improved)
                    break;
            }
        }
    };
    for (size_t i = 0; i < cur.items.size() && st.executions < budget; ++i)
    {
        if (cur.items[i].tag == "cfg")
            continue;
        shrinkItem(i, -1);
        for (size_t s = 0; s < cur.items[i].sub.size() && st.executions < budget; ++s)
            shrinkItem(i, static_cast<int>(s));
    }
    st.opsAfter = countOps(cur);
    return cur;
}

}  // namespace sim
