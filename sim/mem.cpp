// mem.cpp -- C20: outputs never contain or depend on uninitialised memory.
//  Mechanism A (native binary with memfill.cpp linked): the plan is executed three times with different
//  fill patterns for fresh / released heap blocks and for the stack below every API call; every output
//  (event hash over all frames, packets, built payloads) must be bit-identical.
//  Mechanism B (same objects without memfill.cpp, under valgrind memcheck): every output buffer is checked
//  with VALGRIND_CHECK_MEM_IS_DEFINED and any error memcheck counts during the run (a branch or address
//  depending on an undefined value inside the library) is a violation.
#include <cstring>
#include <string>

#include "adapter.h"
#include "exec.h"

#if __has_include(<valgrind/memcheck.h>)
#include <valgrind/memcheck.h>
#define SIM_HAVE_VALGRIND 1
#else
#define SIM_HAVE_VALGRIND 0
#define RUNNING_ON_VALGRIND 0
#endif

extern "C" void sim_set_fill(int fresh, int freed) __attribute__((weak));

namespace sim
{

static int g_stackPattern = -1;

__attribute__((noinline)) static void scribbleStack()
{
    if (g_stackPattern < 0)
        return;
    volatile char area[48 * 1024];
    memset(const_cast<char*>(area), g_stackPattern, sizeof area);
    // keep the compiler from dropping the array
    asm volatile("" : : "r"(area) : "memory");
}

static std::string g_undefWhat;
static unsigned long g_undefCount = 0;

static void definednessTap(const void* data, size_t n, const char* what)
{
#if SIM_HAVE_VALGRIND
    if (n == 0)
        return;
    unsigned long bad = VALGRIND_CHECK_MEM_IS_DEFINED(data, n);
    if (bad)
    {
        if (g_undefCount == 0)
            g_undefWhat = std::string(what) + " byte " + std::to_string(bad - reinterpret_cast<unsigned long>(data)) + " of " + std::to_string(n);
        ++g_undefCount;
    }
#else
    (void) data;
    (void) n;
    (void) what;
#endif
}

RunResult execMemoryDifferential(const Plan& plan)
{
    if (RUNNING_ON_VALGRIND)
    {
#if SIM_HAVE_VALGRIND
        g_undefCount = 0;
        g_undefWhat.clear();
        setOutputTap(definednessTap);
        const unsigned long before = VALGRIND_COUNT_ERRORS;
        RunResult r = execPlan(plan);
        const unsigned long after = VALGRIND_COUNT_ERRORS;
        setOutputTap(nullptr);
        r.probes["valgrind-run"] += 1;
        if (g_undefCount)
        {
            Violation v;
            v.prop = plan.prop;
            v.rule = "mem.undefined-output";
            v.detail = "uninitialised bytes in an output: " + g_undefWhat + " (" + std::to_string(g_undefCount) + " buffers affected)";
            r.viol.insert(r.viol.begin(), v);
        }
        else if (after != before)
        {
            Violation v;
            v.prop = plan.prop;
            v.rule = "mem.undefined-branch";
            v.detail = "valgrind memcheck reported " + std::to_string(after - before) + " error(s) during the run (see its report on stderr)";
            r.viol.insert(r.viol.begin(), v);
        }
        return r;
#endif
    }
    if (!sim_set_fill)
        return execPlan(plan);  // no allocator layer linked: plain execution
    static const int patterns[3][2] = {{0xA5, 0x5A}, {0x3C, 0xC3}, {0x00, 0x00}};
    RunResult first;
    uint64_t hashes[3] = {0, 0, 0};
    for (int i = 0; i < 3; ++i)
    {
        sim_set_fill(patterns[i][0], patterns[i][1]);
        g_stackPattern = patterns[i][0];
        lib::setPreCallHook(scribbleStack);
        RunResult r = execPlan(plan);
        lib::setPreCallHook(nullptr);
        sim_set_fill(-1, -1);
        g_stackPattern = -1;
        hashes[i] = r.eventHash;
        if (i == 0)
            first = std::move(r);
        else if (!r.viol.empty() && first.viol.empty())
            first.viol = r.viol;  // an oracle disagreeing under one fill only is a dependence as well
    }
    first.probes["fill-differential"] += 1;
    if (hashes[0] != hashes[1] || hashes[0] != hashes[2])
    {
        Violation v;
        v.prop = plan.prop;
        v.rule = "mem.diff-fill";
        v.detail = "outputs differ between fresh-memory fill patterns: 0xA5/0x5A -> " + std::to_string(hashes[0]) + ", 0x3C/0xC3 -> " +
                   std::to_string(hashes[1]) + ", zero -> " + std::to_string(hashes[2]);
        first.viol.insert(first.viol.begin(), v);
    }
    return first;
}

}  // namespace sim
