// mem.cpp -- C20 mechanism A: hostile fresh memory (placeholder until the allocator layer is linked)
#include "exec.h"
namespace sim
{
RunResult execMemoryDifferential(const Plan& plan)
{
    return execPlan(plan);
}
}  // namespace sim
