// main.cpp -- simcheck: worker loop, plan printing, isolated replay, minimisation, hash-set merging
#include <signal.h>
#include <sys/wait.h>
#include <unistd.h>

#include <algorithm>
#include <chrono>
#include <cstdio>
#include <cstdlib>
#include <cstring>
#include <exception>
#include <fstream>
#include <iostream>
#include <map>
#include <set>
#include <sstream>
#include <unordered_set>

#include "exec.h"
#include "gen.h"
#include "isolate.h"
#include "plan.h"
#include "world.h"

extern "C" __attribute__((used)) const char* __asan_default_options()
{
    return "exitcode=77:detect_leaks=0:abort_on_error=0:handle_abort=1:print_summary=1:detect_stack_use_after_return=0:quarantine_size_mb=8:malloc_context_size=5";
}
extern "C" __attribute__((used)) const char* __ubsan_default_options()
{
    return "halt_on_error=1:exitcode=77:print_stacktrace=1";
}

using namespace sim;

static void onAlarm(int)
{
    const char m[] = "WATCHDOG\n";
    ssize_t w = write(2, m, sizeof m - 1);
    (void) w;
    _exit(79);
}
static void onTerminate()
{
    const char m[] = "TERMINATE (uncaught exception)\n";
    ssize_t w = write(2, m, sizeof m - 1);
    (void) w;
    _exit(78);
}

static std::string jsonEscape(const std::string& s)
{
    std::string o;
    for (char c : s)
    {
        switch (c)
        {
            case '"':
                o += "\\\"";
                break;
            case '\\':
                o += "\\\\";
                break;
            case '\n':
                o += "\\n";
                break;
            case '\t':
                o += "\\t";
                break;
            default:
                if (static_cast<unsigned char>(c) < 0x20)
                {
                    char b[8];
                    snprintf(b, sizeof b, "\\u%04x", c);
                    o += b;
                }
                else
                    o += c;
        }
    }
    return o;
}

static std::map<std::string, std::string> parseArgs(int argc, char** argv, int from, std::vector<std::string>& positional)
{
    std::map<std::string, std::string> a;
    for (int i = from; i < argc; ++i)
    {
        std::string s = argv[i];
        if (s.rfind("--", 0) == 0)
        {
            std::string k = s.substr(2);
            if (i + 1 < argc && std::string(argv[i + 1]).rfind("--", 0) != 0)
                a[k] = argv[++i];
            else
                a[k] = "1";
        }
        else
            positional.push_back(s);
    }
    return a;
}

static void writeHashes(const std::string& path, const std::unordered_set<uint64_t>& s)
{
    std::ofstream f(path, std::ios::binary);
    for (uint64_t v : s)
        f.write(reinterpret_cast<const char*>(&v), sizeof v);
}

static bool isNontrivial(const std::string& prop, const RunResult& r);

static int cmdRun(std::map<std::string, std::string>& a)
{
    const std::string prop = a["prop"];
    const int tier = a["tier"] == "thorough" ? 1 : 0;
    const uint64_t seed = std::stoull(a.count("seed") ? a["seed"] : "1");
    const uint64_t worker = std::stoull(a.count("worker") ? a["worker"] : "0");
    const uint64_t nworkers = std::stoull(a.count("nworkers") ? a["nworkers"] : "1");
    uint64_t idx = a.count("start") ? std::stoull(a["start"]) : worker;
    const uint64_t budgetMs = std::stoull(a.count("budget-ms") ? a["budget-ms"] : "10000");
    const uint64_t maxRuns = std::stoull(a.count("max-runs") ? a["max-runs"] : "1000000000");
    const std::string outDir = a.count("out-dir") ? a["out-dir"] : "";
    const bool logAll = a.count("log") != 0;
    const int samplesWanted = worker == 0 ? 3 : 0;

    signal(SIGALRM, onAlarm);
    std::set_terminate(onTerminate);

    std::unordered_set<uint64_t> nontrivial, interleavings, states;
    std::map<std::string, uint64_t> probes, faults;
    uint64_t evaluations = 0, simTime = 0, deliveries = 0, apiCalls = 0, violations = 0, maxRunMs = 0;
    int samples = 0;
    const auto t0 = std::chrono::steady_clock::now();
    // the wall clock only decides when the batch stops, never what a run does
    while (evaluations < maxRuns)
    {
        const auto el = std::chrono::duration_cast<std::chrono::milliseconds>(std::chrono::steady_clock::now() - t0).count();
        if (static_cast<uint64_t>(el) >= budgetMs)
            break;
        printf("START %llu %llu\n", static_cast<unsigned long long>(idx), static_cast<unsigned long long>(runSeed(seed, prop, idx)));
        fflush(stdout);
        Plan plan = generate(prop, tier, seed, idx);
        const auto r0 = std::chrono::steady_clock::now();
        alarm(120);  // a hang is a violation; normal runs take milliseconds, the slowest (C09 wrap runs, C19) a few seconds
        // C19 needs cold process state for every run (lazily initialised / grow-on-demand statics): one forked child per run
        RunResult r = (prop == "C19") ? runForkedFull(plan) : execForProp(plan);
        alarm(0);
        const uint64_t runMs = static_cast<uint64_t>(std::chrono::duration_cast<std::chrono::milliseconds>(std::chrono::steady_clock::now() - r0).count());
        if (runMs > maxRunMs)
            maxRunMs = runMs;
        if (runMs > 5000)
            printf("SLOW %llu %llu ms\n", static_cast<unsigned long long>(idx), static_cast<unsigned long long>(runMs));
        ++evaluations;
        const uint64_t ph = planHash(plan);
        if (isNontrivial(prop, r))
            nontrivial.insert(ph);
        if (r.interleaveHash)
            interleavings.insert(r.interleaveHash);
        for (uint64_t s : r.stateHashes)
            if (states.size() < 2000000)
                states.insert(s);
        for (auto& kv : r.probes)
        {
            if (kv.first.rfind("max-", 0) == 0)
                probes[kv.first] = std::max(probes[kv.first], kv.second);  // a maximum, not a count
            else
                probes[kv.first] += kv.second;
        }
        for (auto& kv : r.faults)
            faults[kv.first] += kv.second;
        simTime += r.simTimeUs;
        deliveries += r.deliveries;
        apiCalls += r.apiCalls;
        if (!r.viol.empty())
        {
            ++violations;
            printf("VIOL %llu %s\t%s\n", static_cast<unsigned long long>(idx), r.viol[0].sig().c_str(), jsonEscape(r.viol[0].detail).c_str());
        }
        else if (logAll)
            printf("OK %llu %016llx %016llx\n", static_cast<unsigned long long>(idx), static_cast<unsigned long long>(ph),
                   static_cast<unsigned long long>(r.eventHash));
        if (logAll && !r.viol.empty())
            printf("HASH %llu %016llx %016llx\n", static_cast<unsigned long long>(idx), static_cast<unsigned long long>(ph),
                   static_cast<unsigned long long>(r.eventHash));
        if (samples < samplesWanted && countOps(plan) <= 12)
        {
            printf("SAMPLE %s\n", jsonEscape(planToText(plan)).c_str());
            ++samples;
        }
        fflush(stdout);
        idx += nworkers;
    }
    const double wall = std::chrono::duration_cast<std::chrono::milliseconds>(std::chrono::steady_clock::now() - t0).count() / 1000.0;
    if (!outDir.empty())
    {
        writeHashes(outDir + "/w" + std::to_string(worker) + ".nontrivial", nontrivial);
        writeHashes(outDir + "/w" + std::to_string(worker) + ".inter", interleavings);
        writeHashes(outDir + "/w" + std::to_string(worker) + ".states", states);
    }
    std::ostringstream js;
    js << "{\"evaluations\":" << evaluations << ",\"violations\":" << violations << ",\"sim_time_us\":" << simTime << ",\"deliveries\":" << deliveries
       << ",\"api_calls\":" << apiCalls << ",\"wall_s\":" << wall << ",\"next_idx\":" << idx << ",\"max_run_ms\":" << maxRunMs << ",\"probes\":{";
    bool first = true;
    for (auto& kv : probes)
    {
        js << (first ? "" : ",") << "\"" << jsonEscape(kv.first) << "\":" << kv.second;
        first = false;
    }
    js << "},\"faults\":{";
    first = true;
    for (auto& kv : faults)
    {
        js << (first ? "" : ",") << "\"" << jsonEscape(kv.first) << "\":" << kv.second;
        first = false;
    }
    js << "}}";
    printf("STATS %s\n", js.str().c_str());
    fflush(stdout);
    return 0;
}

// a run counts as non-trivial when a probe the property cares about fired
static bool isNontrivial(const std::string& prop, const RunResult& r)
{
    auto has = [&](const char* k) { return r.probes.count(k) != 0; };
    if (prop == "C01")
        return has("reassembled") || has("aggregated-frame");
    if (prop == "C02")
        return has("faulted-frame-delivered") || has("tecmp-frame") || has("undersized-buffer");
    if (prop == "C03")
        return has("validator-accepted") || has("typed-valid-packet");
    if (prop == "C04")
        return r.deliveries > 0;
    if (prop == "C05")
        return has("reassembled");
    if (prop == "C06")
        return !r.faults.empty() && r.deliveries > 0;
    if (prop == "C07" || prop == "C08")
        return has("mixed-segmented-and-aggregated") || has("segmented-only") || has("aggregated-only") || has("empty-batch");
    if (prop == "C09")
        return r.faults.count("cm-reconfigure") || r.faults.count("cm-restart") || has("counter-wrapped") || has("nth-call-on-same-encoder");
    if (prop == "C10")
        return has("twin-compared-after-history");
    if (prop == "C13")
        return has("shorter-after-longer") || has("longer-after-shorter") || has("odd-stream-id-count") || has("even-length-string") ||
               has("fd-dlc-coded-length");
    if (prop == "C15")
        return has("tecmp-converted") || has("tecmp-rejected");
    if (prop == "C16")
        return has("multiple-devices-tracked") || has("remove-known-device") || has("remove-known-interface");
    if (prop == "C17")
        return has("pending-nonempty");
    if (prop == "C18")
        return has("multi-endpoint-history");
    if (prop == "C19")
        return r.probes.count("preempted-inside-library") != 0 || r.probes.count("instances-interleaved-on-one-thread") != 0;
    if (prop == "C20")
        return r.probes.count("fill-differential") || r.probes.count("valgrind-run");
    return !r.probes.empty();
}

static bool loadPlan(const std::string& path, Plan& p)
{
    std::ifstream f(path);
    if (!f)
    {
        fprintf(stderr, "cannot open %s\n", path.c_str());
        return false;
    }
    std::stringstream ss;
    ss << f.rdbuf();
    std::string err;
    if (!parsePlan(ss.str(), p, err))
    {
        fprintf(stderr, "bad plan %s: %s\n", path.c_str(), err.c_str());
        return false;
    }
    return true;
}

static int cmdGen(std::map<std::string, std::string>& a)
{
    Plan p = generate(a["prop"], a["tier"] == "thorough" ? 1 : 0, std::stoull(a.count("seed") ? a["seed"] : "1"), std::stoull(a["idx"]));
    fputs(planToText(p).c_str(), stdout);
    return 0;
}

static int cmdReplay(std::map<std::string, std::string>& a, std::vector<std::string>& pos)
{
    if (pos.empty())
        return 2;
    Plan p;
    if (!loadPlan(pos[0], p))
        return 2;
    if (a.count("prop"))
        p.prop = a["prop"];
    if (a.count("no-fork"))
    {
        RunResult r = execForProp(p);
        for (auto& v : r.viol)
            printf("VIOLATION-DETAIL %s: %s (op %d)\n", v.sig().c_str(), v.detail.c_str(), v.op);
        printf("RESULT sig=%s hash=%016llx\n", r.viol.empty() ? "none" : r.viol[0].sig().c_str(), static_cast<unsigned long long>(r.eventHash));
        return r.viol.empty() ? 0 : 1;
    }
    Outcome o = runIsolated(p);
    printf("RESULT sig=%s hash=%016llx violations=%d\n", o.sig.empty() ? "none" : o.sig.c_str(), static_cast<unsigned long long>(o.eventHash),
           o.violations);
    if (!o.sig.empty())
        printf("DETAIL %s\n", jsonEscape(o.detail).c_str());
    if (!p.expectSig.empty())
        printf("EXPECTED %s -> %s\n", p.expectSig.c_str(), p.expectSig == o.sig ? "reproduced" : "NOT reproduced");
    return o.sig.empty() ? 0 : 1;
}

static int cmdShrink(std::map<std::string, std::string>& a, std::vector<std::string>& pos)
{
    if (pos.empty() || !a.count("out"))
        return 2;
    Plan p;
    if (!loadPlan(pos[0], p))
        return 2;
    Outcome o = runIsolated(p);
    std::string sig = a.count("sig") ? a["sig"] : o.sig;
    if (o.sig != sig || sig.empty())
    {
        printf("SHRINK-FAILED original does not reproduce '%s' (got '%s')\n", sig.c_str(), o.sig.c_str());
        return 2;
    }
    if (p.prop == "C19" && p.cfgGet("explicit", 0) == 0)
    {
        // make the schedule explicit: (yield index -> next thread) items that the minimiser can drop one by one
        std::string tmpPath = a["out"] + ".explicit";
        fflush(stdout);
        pid_t pid = fork();
        if (pid == 0)
        {
            execForProp(p);
            Plan q = p;
            for (auto& it : q.items)
                if (it.tag == "cfg" && !it.has("th"))
                    it.set("explicit", 1);
            for (auto& sw : lastSwitchLog())
            {
                Item op("op");
                op.set("k", 20).set("at", static_cast<int64_t>(sw.first)).set("to", sw.second);
                q.items.push_back(op);
            }
            std::ofstream f(tmpPath);
            f << planToText(q);
            f.close();
            _exit(0);
        }
        int status = 0;
        waitpid(pid, &status, 0);
        Plan q;
        if (loadPlan(tmpPath, q) && countOps(q) <= countOps(p) + 3000)
        {
            Outcome oq = runIsolated(q);
            if (oq.sig == sig)
                p = q;
        }
        unlink(tmpPath.c_str());
    }
    ShrinkStats st;
    Plan m = shrinkPlan(p, sig, a.count("budget") ? std::stoi(a["budget"]) : 400, st);
    Outcome om = runIsolated(m);
    m.expectSig = sig;
    std::ofstream f(a["out"]);
    f << "# minimised from " << st.opsBefore << " to " << st.opsAfter << " operations in " << st.executions << " executions\n";
    f << "# original plan hash " << std::hex << planHash(p) << std::dec << "\n";
    std::string det = om.detail.substr(0, 600);
    std::replace(det.begin(), det.end(), '\n', ' ');
    f << "# " << det << "\n";
    f << planToText(m);
    printf("SHRUNK ops %zu -> %zu executions %d sig=%s\n", st.opsBefore, st.opsAfter, st.executions, om.sig.c_str());
    return om.sig == sig ? 0 : 2;
}

static int cmdMerge(std::vector<std::string>& pos)
{
    std::vector<uint64_t> all;
    for (auto& path : pos)
    {
        std::ifstream f(path, std::ios::binary);
        uint64_t v;
        while (f.read(reinterpret_cast<char*>(&v), sizeof v))
            all.push_back(v);
    }
    std::sort(all.begin(), all.end());
    all.erase(std::unique(all.begin(), all.end()), all.end());
    printf("%zu\n", all.size());
    return 0;
}

int main(int argc, char** argv)
{
    if (argc < 2)
    {
        fprintf(stderr, "usage: simcheck run|gen|replay|shrink|merge|variant ...\n");
        return 2;
    }
    std::string cmd = argv[1];
    std::vector<std::string> pos;
    auto a = parseArgs(argc, argv, 2, pos);
    if (cmd == "run")
        return cmdRun(a);
    if (cmd == "gen")
        return cmdGen(a);
    if (cmd == "replay")
        return cmdReplay(a, pos);
    if (cmd == "shrink")
        return cmdShrink(a, pos);
    if (cmd == "merge")
        return cmdMerge(pos);
    if (cmd == "variant")
    {
        puts(variantName());
        return 0;
    }
    return 2;
}
