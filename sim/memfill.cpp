// memfill.cpp -- hostile fresh memory (C20 mechanism A): global operator new/delete that fill fresh
// blocks with pattern P and released blocks with pattern Q. Linked into the native "plain" binary only
// (never under ASan, never into the valgrind binary: a fill would DEFINE the memory).
#if defined(SIM_VARIANT_PLAIN)
#include <cstdint>
#include <cstdlib>
#include <cstring>
#include <new>

static int g_fillFresh = -1;  // -1: filling off
static int g_fillFreed = -1;

extern "C" void sim_set_fill(int fresh, int freed)
{
    g_fillFresh = fresh;
    g_fillFreed = freed;
}

namespace
{
constexpr size_t HDR = 16;  // keeps 16-byte alignment; stores the user size

inline void* allocFill(size_t n)
{
    void* raw = std::malloc(n + HDR);
    if (!raw)
        throw std::bad_alloc();
    *static_cast<size_t*>(raw) = n;
    void* user = static_cast<char*>(raw) + HDR;
    if (g_fillFresh >= 0)
        std::memset(user, g_fillFresh, n);
    return user;
}
inline void freeFill(void* p) noexcept
{
    if (!p)
        return;
    void* raw = static_cast<char*>(p) - HDR;
    if (g_fillFreed >= 0)
        std::memset(p, g_fillFreed, *static_cast<size_t*>(raw));
    std::free(raw);
}
}  // namespace

void* operator new(size_t n)
{
    return allocFill(n);
}
void* operator new[](size_t n)
{
    return allocFill(n);
}
void* operator new(size_t n, const std::nothrow_t&) noexcept
{
    try
    {
        return allocFill(n);
    }
    catch (...)
    {
        return nullptr;
    }
}
void* operator new[](size_t n, const std::nothrow_t&) noexcept
{
    try
    {
        return allocFill(n);
    }
    catch (...)
    {
        return nullptr;
    }
}
void operator delete(void* p) noexcept
{
    freeFill(p);
}
void operator delete[](void* p) noexcept
{
    freeFill(p);
}
void operator delete(void* p, size_t) noexcept
{
    freeFill(p);
}
void operator delete[](void* p, size_t) noexcept
{
    freeFill(p);
}
#endif
