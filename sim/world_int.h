// world_int.h -- internal state of one simulated run (shared by world*.cpp)
#pragma once
#include <deque>
#include <map>
#include <memory>
#include <queue>
#include <set>
#include <string>
#include <vector>

#include "adapter.h"
#include "content.h"
#include "models.h"
#include "plan.h"
#include "world.h"

namespace sim
{

using model::Endpoint;
using model::ExpPacket;

struct Node
{
    int id{0};
    int type{0};  // 1 capture module (real encoder), 2 raw peer, 3 tecmp peer, 4 noise
    uint16_t dev{0};
    uint8_t stream{0};
    int64_t lat{10};
    int64_t gap{1};
    uint16_t ctr{0};      // raw peers: counter of the next frame
    std::unique_ptr<lib::Enc> enc;
    uint16_t lastCtr{0};  // RefCounter (C09)
    int encodeCalls{0};
    uint64_t linkFree{0};  // earliest delivery time of the node's next frame (per-link FIFO)
};

// a logical message sent on an endpoint whose frames are known (C06)
struct SentMsg
{
    uint64_t hash{0};
    Endpoint ep{0, 0};
    std::vector<int> frameIds;
};

struct InFlight
{
    uint64_t time{0};
    uint64_t seq{0};
    int frameId{-1};
    Bytes bytes;
    bool pristine{true};
    int op{-1};
    int node{0};
    bool expectKnown{false};
    std::vector<ExpPacket> expect;   // fault-free end-to-end expectation for this frame (C05)
    std::vector<int> completes;      // indexes into World::sent: messages whose last frame this is
    bool isSegmentFrame{false};
    long allocFail{-1};  // F_ALLOCFAIL
    int depth{0};        // > 0: derived from the comparison operands of an earlier delivery (cmpfb)
    bool hasLead{false};  // unsegmented messages travel in front of the segment (version / type corruption would change THEM)
};

struct InFlightCmp
{
    bool operator()(const InFlight* a, const InFlight* b) const
    {
        return a->time != b->time ? a->time > b->time : a->seq > b->seq;
    }
};

struct Kept
{
    lib::PacketRef ref;
    uint64_t digest;
};

class World
{
public:
    explicit World(const Plan& p);
    ~World();
    void run();
    // pieces of run() for runs that are started on one thread and continued on another (threads.cpp)
    void runOps(size_t fromOp, size_t toOp);
    void finishRun();
    size_t deliverDue(size_t maxFrames, size_t nextOp);
    void adoptCopiesFrom(World& proto);
    RunResult res;

private:
    const Plan& plan;
    std::string prop;
    int curOp{-1};
    uint64_t now{0};
    uint64_t seqNo{0};
    int nextFrameId{0};
    std::map<int, Node> nodes;
    std::priority_queue<InFlight*, std::vector<InFlight*>, InFlightCmp> queue;
    std::vector<Bytes> history;  // recently sent frames (stale replay, splice)

    // receiver
    bool rxEnabled{true};
    std::unique_ptr<lib::Dec> dec;
    model::RefDecoder ref;
    bool statusEnabled{false};
    std::unique_ptr<lib::Stat> stat;
    model::RefStatus refStat;
    std::set<uint16_t> devAlphabet;
    std::set<uint32_t> ifAlphabet;
    std::map<Endpoint, std::unique_ptr<lib::Dec>> proj;  // C18
    std::vector<Kept> kept;                              // C02
    uint64_t keptChecks{0};
    bool typedViews{false};
    uint64_t plife{0};  // cfg plife: decoded packets are handed on as copies / moved / assigned objects
    // C01 relay: decoded packets are encoded again with another frame size and decoded by a second receiver
    std::unique_ptr<lib::Enc> relayEnc;
    std::unique_ptr<lib::Dec> relayDec;
    uint64_t relayCalls{0};
    uint64_t decShadowSeen{0};
    // simulated wall clock (simclock.cpp)
    uint64_t clockJumpSeed{0};
    bool probed64{false};
    bool keepAll{false};
    bool cmpFeedback{false};  // cfg cmpfb: frames derived from the comparison operands of decode calls (asan variant)
    int derivedLeft{48};
    int encDepth{0};
    int encDerivedLeft{6};
    void deriveFromComparisons(const InFlight& f, const std::vector<cmpfb::Operand>& ops);
    uint64_t statusUpdates{0};
    bool shareInput{false};  // C19: receive buffers interned per content and shared between the threads
    uint64_t clockOffsetNs{0};
    uint64_t clockTicks{0};
    void syncClock();

    // C01: per endpoint queue of packets still to be delivered
    std::map<Endpoint, std::deque<ExpPacket>> expectQueue;
    // C06
    std::vector<SentMsg> sent;
    std::map<Endpoint, std::set<uint64_t>> sentHashes;
    std::map<Endpoint, std::vector<std::pair<int, bool>>> arrivals;  // (frame id, pristine)

    // C13
    struct BuilderSlot
    {
        std::unique_ptr<lib::Builder> b;
        lib::BuildFields fields;
        bool hasFields{false};
        size_t prevLen{0};
        bool fromWire{false};
        lib::BuildData prevBd;  // content of the previous step (near-identical follow-ups)
        bool hasPrevBd{false};
        bool everSet{false};
        uint64_t setCalls{0};  // setData has been called on this object at least once
        Bytes wireHeader;  // from-wire objects: the header bytes they were born with (length / DLC bytes zeroed)
    };
    std::map<int, BuilderSlot> builders;

    // helpers
    bool is(const char* p) const
    {
        return prop == p;
    }
    void violate(const std::string& rule, const std::string& detail);
    void probe(const char* name, uint64_t n = 1)
    {
        res.probes[name] += n;
    }
    void fault(const char* name)
    {
        res.faults[name] += 1;
    }
    void ev(uint64_t v)
    {
        res.eventHash = hashU64(v, res.eventHash);
    }
    void evBytes(const void* p, size_t n, const char* what);

    Node& nodeOf(const Item& op);
    void advanceTo(uint64_t t);
    void drain();
    void emit(const Item& op, Node& node, std::vector<InFlight>& frames);
    void applyFaults(const Item& op, std::vector<InFlight>& frames, std::vector<InFlight>& extra);
    bool applySetField(Bytes& b, int field, int idx, int64_t val, bool rel = false);
    void deliver(InFlight& f);
    void checkKept(bool all);
    void compareStatus(const char* when);

    // ops
    void opEnc(const Item& op);
    void opRawSeg(const Item& op);
    void opRaw(const Item& op);
    void opTecmp(const Item& op);
    void opNoise(const Item& op);
    void opStale(const Item& op);
    void opRxRestart(const Item& op);
    void opCmSet(const Item& op);
    void opStatus(const Item& op);
    void opBuild(const Item& op);
    void opProbe(const Item& op);
    void opStatUpd(const Item& op);
    void opLife(const Item& op);
    void relay(const std::vector<lib::PacketRef>& out, const std::vector<lib::Obs>& obs);
    void finish();
};

uint64_t hashExp(const ExpPacket& e);
uint64_t hashObsAsSent(const lib::Obs& o);
OutputTap currentTap();

}  // namespace sim
