// sched.h -- seeded thread scheduler + happens-before detector (C19). Implemented in sched_rt.cpp,
// which is only part of the "sched" build variant (library compiled with
// -fsanitize-coverage=trace-pc-guard,trace-loads,trace-stores).
#pragma once
#include <cstdint>
#include <functional>
#include <string>
#include <utility>
#include <vector>

namespace sched
{

struct Config
{
    uint64_t seed{1};
    int64_t meanRun{100};  // mean number of yield points a thread runs before the scheduler may switch (geometric)
    int mode{0};           // 0 geometric run lengths, 1 "d change points" (PCT-like): only `points` switches, uniformly placed
    int points{3};
    uint64_t horizon{0};   // estimated total number of yield points (for mode 1)
    bool useExplicit{false};
    std::vector<std::pair<uint64_t, int>> explicitSwitches;  // (global yield index, thread to run next)
};

struct Report
{
    uint64_t yields{0};
    uint64_t switches{0};
    uint64_t accesses{0};
    uint64_t scheduleHash{0};
    std::vector<std::pair<uint64_t, int>> switchLog;
    std::vector<std::string> conflicts;  // unordered conflicting accesses (at most a few, described)
    bool preemptedInsideLibrary{false};
};

// runs the bodies on real threads, exactly one at a time, switching at instrumentation callbacks
Report runThreads(const Config& cfg, const std::vector<std::function<void()>>& bodies);
// One storage per distinct content, process-wide and never released: receive buffers that several threads decode at the
// same time ("the same capture buffer handed to two decoders"). Input buffers are const for the library, so sharing them
// is legitimate; a library that writes to its input shows as a conflict with the other threads' reads. Filling the
// buffer is not recorded as an access.
const uint8_t* internInput(const uint8_t* data, size_t n);
// number of yield points a body passes when run alone on the calling thread (not scheduled)
uint64_t countYieldPoints(const std::function<void()>& body);

}  // namespace sched
