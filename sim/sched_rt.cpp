// sched_rt.cpp -- runtime of the "sched" build variant (C19).
//  * the library is compiled with -fsanitize-coverage=trace-pc-guard,trace-loads,trace-stores -fno-builtin: every
//    basic-block edge, load and store of library code calls back into this file;
//  * real threads (so thread_local behaves as in production) are parked and released one at a time with a baton;
//    every callback is a yield point where the seeded scheduler may hand the baton to another thread;
//  * the same callbacks feed a vector-clock happens-before detector (edges: thread start/join, static-init guards;
//    heap ranges are forgotten when released) that reports unordered conflicting accesses.
#if defined(SIM_VARIANT_SCHED)
#include "sched.h"

#include <dlfcn.h>
#include <unistd.h>
#include <algorithm>

#include <array>
#include <condition_variable>
#include <cstdio>
#include <cstdlib>
#include <cstring>
#include <map>
#include <mutex>
#include <new>
#include <thread>
#include <unordered_map>

#include "prng.h"

namespace
{

constexpr int MAXT = 4;
thread_local int t_tid = -1;    // index of the scheduled thread, -1 = not scheduled
thread_local int t_inRt = 0;    // inside the runtime: ignore callbacks
thread_local bool t_counting = false;
thread_local uint64_t t_count = 0;

struct Shadow
{
    int wTid{-1};
    uint32_t wClk{0};
    uintptr_t wPc{0};
    uint32_t rClk[MAXT]{0, 0, 0, 0};
    uintptr_t rPc[MAXT]{0, 0, 0, 0};
};

struct State
{
    std::mutex m;
    std::condition_variable cv;
    int n{0};
    int current{-1};  // thread holding the baton; -2 = all finished
    bool finished[MAXT]{false, false, false, false};
    sched::Config cfg;
    sim::Rng rng{1, "sched"};
    uint64_t yieldIdx{0};
    uint64_t nextSwitchAt{0};
    size_t explicitPos{0};
    std::vector<uint64_t> changePoints;
    size_t changePos{0};
    sched::Report rep;
    // detector
    uint32_t vc[MAXT][MAXT]{};
    std::unordered_map<uintptr_t, Shadow> shadow;
    std::map<void*, std::array<uint32_t, MAXT>> guardVc;
    std::map<void*, int> guardOwner;
    int conflictsSeen{0};
    int atomicChecks{0};
    std::map<void*, std::array<uint32_t, MAXT>> syncVc;  // mutexes, once flags: clock of the last release
    std::map<void*, int> syncOwner;                        // who holds a mutex / runs a once-initialiser
    std::map<void*, bool> onceDone;
};
State* g = nullptr;

std::string symbolize(uintptr_t pc)
{
    Dl_info info;
    char buf[256];
    if (dladdr(reinterpret_cast<void*>(pc), &info) && info.dli_fbase)
    {
        uintptr_t off = pc - reinterpret_cast<uintptr_t>(info.dli_fbase);
        std::string cmd = "llvm-symbolizer --obj=/proc/" + std::to_string(getpid()) + "/exe --functions=short --basenames 0x";
        snprintf(buf, sizeof buf, "%lx", static_cast<unsigned long>(off - 1));
        cmd += buf;
        cmd += " 2>/dev/null";
        FILE* p = popen(cmd.c_str(), "r");
        if (p)
        {
            std::string fn, loc;
            if (fgets(buf, sizeof buf, p))
                fn = buf;
            if (fgets(buf, sizeof buf, p))
                loc = buf;
            pclose(p);
            while (!fn.empty() && (fn.back() == '\n' || fn.back() == '\r'))
                fn.pop_back();
            while (!loc.empty() && (loc.back() == '\n' || loc.back() == '\r'))
                loc.pop_back();
            if (!fn.empty())
                return fn + " (" + loc + ")";
        }
    }
    snprintf(buf, sizeof buf, "pc 0x%lx", static_cast<unsigned long>(pc));
    return buf;
}

int pickOther(int self)
{
    int cand[MAXT], k = 0;
    for (int i = 0; i < g->n; ++i)
        if (i != self && !g->finished[i])
            cand[k++] = i;
    if (k == 0)
        return -1;
    return cand[g->rng.below(static_cast<uint64_t>(k))];
}

uint64_t drawRun()
{
    // geometric with the configured mean, at least 1
    const double u = (static_cast<double>(g->rng.next() >> 11) + 1.0) / 9007199254740993.0;
    const double mean = static_cast<double>(g->cfg.meanRun < 1 ? 1 : g->cfg.meanRun);
    double v = -__builtin_log(u) * mean;
    if (v < 1)
        v = 1;
    if (v > 1e9)
        v = 1e9;
    return static_cast<uint64_t>(v);
}

void switchTo(int target)
{
    std::unique_lock<std::mutex> lk(g->m);
    const int self = t_tid;
    g->rep.switches++;
    g->rep.scheduleHash = sim::hashU64((g->yieldIdx << 3) | static_cast<uint64_t>(target), g->rep.scheduleHash);
    if (g->rep.switchLog.size() < 100000)
        g->rep.switchLog.emplace_back(g->yieldIdx, target);
    g->current = target;
    g->cv.notify_all();
    g->cv.wait(lk, [&] { return g->current == self; });
}

inline void yieldPoint()
{
    if (t_tid < 0)
    {
        if (t_counting)
            ++t_count;
        return;
    }
    if (t_inRt)
        return;
    ++t_inRt;
    const uint64_t idx = ++g->yieldIdx;
    int target = -1;
    if (g->cfg.useExplicit)
    {
        while (g->explicitPos < g->cfg.explicitSwitches.size() && g->cfg.explicitSwitches[g->explicitPos].first < idx)
            ++g->explicitPos;
        if (g->explicitPos < g->cfg.explicitSwitches.size() && g->cfg.explicitSwitches[g->explicitPos].first == idx)
        {
            target = g->cfg.explicitSwitches[g->explicitPos].second;
            ++g->explicitPos;
        }
    }
    else if (g->cfg.mode == 1)
    {
        if (g->changePos < g->changePoints.size() && idx >= g->changePoints[g->changePos])
        {
            ++g->changePos;
            target = pickOther(t_tid);
        }
    }
    else if (idx >= g->nextSwitchAt)
    {
        target = pickOther(t_tid);
        // very fine-grained switching is kept to a budget of switches per run (each one is two futex calls)
        g->nextSwitchAt = idx + (g->rep.switches < 4000 ? drawRun() : drawRun() + 50000);
    }
    if (target >= 0 && target < g->n && target != t_tid && !g->finished[target])
    {
        g->rep.preemptedInsideLibrary = true;
        switchTo(target);
    }
    --t_inRt;
}

// std::atomic operations are always-inline members of <bits/atomic_base.h>; plain atomic loads and stores are instrumented
// like ordinary ones, so a conflict between two of them is recognised by where the accesses sit and is not a data race
bool isAtomicAccess(uintptr_t pc)
{
    static std::map<uintptr_t, bool> cache;
    auto it = cache.find(pc);
    if (it != cache.end())
        return it->second;
    const std::string where = symbolize(pc);
    const bool a = where.find("atomic_base.h") != std::string::npos || where.find("(atomic:") != std::string::npos ||
                   where.find("shared_ptr_atomic.h") != std::string::npos;
    cache[pc] = a;
    return a;
}

void reportConflict(const char* kind, uintptr_t addr, int otherTid, uintptr_t otherPc, uintptr_t pc)
{
    if (g->atomicChecks < 2000)
    {
        ++g->atomicChecks;
        if (isAtomicAccess(pc) && isAtomicAccess(otherPc))
            return;
    }
    g->conflictsSeen++;
    if (g->rep.conflicts.size() >= 3)
        return;
    char buf[96];
    snprintf(buf, sizeof buf, "%s on address 0x%lx: thread %d at ", kind, static_cast<unsigned long>(addr), t_tid);
    std::string d = buf;
    d += symbolize(pc);
    d += " vs thread " + std::to_string(otherTid) + " at " + symbolize(otherPc);
    g->rep.conflicts.push_back(d);
}

inline void access(uintptr_t addr, size_t size, bool isWrite, uintptr_t pc)
{
    if (t_tid < 0 || t_inRt)
        return;
    ++t_inRt;
    g->rep.accesses++;
    const int t = t_tid;
    if (!isWrite && size == 1 && !g->guardVc.empty())
    {
        // the compiler's inline fast path of a function-local static: an acquire load of the guard byte. If another
        // thread finished the initialisation (guard release), this load orders its writes before everything that follows here.
        auto gv = g->guardVc.find(reinterpret_cast<void*>(addr));
        if (gv != g->guardVc.end())
        {
            for (int u = 0; u < MAXT; ++u)
                if (gv->second[static_cast<size_t>(u)] > g->vc[t][u])
                    g->vc[t][u] = gv->second[static_cast<size_t>(u)];
            --t_inRt;
            return;  // the guard byte itself is synchronisation, not data
        }
    }
    const uintptr_t first = addr >> 3, last = (addr + (size ? size - 1 : 0)) >> 3;
    for (uintptr_t gr = first; gr <= last; ++gr)
    {
        Shadow& s = g->shadow[gr];
        if (s.wTid >= 0 && s.wTid != t && s.wClk > g->vc[t][s.wTid])
            reportConflict(isWrite ? "write after unordered write" : "read after unordered write", gr << 3, s.wTid, s.wPc, pc);
        if (isWrite)
        {
            for (int u = 0; u < g->n; ++u)
                if (u != t && s.rClk[u] > g->vc[t][u])
                    reportConflict("write after unordered read", gr << 3, u, s.rPc[u], pc);
            s.wTid = t;
            s.wClk = g->vc[t][t];
            s.wPc = pc;
        }
        else
        {
            s.rClk[t] = g->vc[t][t];
            s.rPc[t] = pc;
        }
        if (last - first > 4096)
            break;  // huge ranges: first granule is enough to see a conflict
    }
    --t_inRt;
}

void forgetRange(void* p, size_t n)
{
    if (!g || t_tid < 0 || t_inRt || n == 0)
        return;
    ++t_inRt;
    const uintptr_t a = reinterpret_cast<uintptr_t>(p);
    const uintptr_t first = a >> 3, last = (a + n - 1) >> 3;
    if (last - first < 100000)
        for (uintptr_t gr = first; gr <= last; ++gr)
            g->shadow.erase(gr);
    --t_inRt;
}

void threadMain(int tid, const std::function<void()>* body)
{
    {
        std::unique_lock<std::mutex> lk(g->m);
        g->cv.wait(lk, [&] { return g->current == tid; });
    }
    t_tid = tid;
    try
    {
        (*body)();
    }
    catch (...)
    {
        ++t_inRt;
        g->rep.conflicts.push_back("thread " + std::to_string(tid) + " terminated by an exception");
        --t_inRt;
    }
    // stop being a scheduled thread BEFORE handing off: TLS destructors run instrumented code
    t_tid = -1;
    std::unique_lock<std::mutex> lk(g->m);
    g->finished[tid] = true;
    int next = -2;
    for (int i = 0; i < g->n; ++i)
        if (!g->finished[i])
        {
            next = i;
            break;
        }
    g->current = next;
    g->cv.notify_all();
}

}  // namespace

namespace sched
{

Report runThreads(const Config& cfg, const std::vector<std::function<void()>>& bodies)
{
    State st;
    st.n = static_cast<int>(bodies.size() > MAXT ? MAXT : bodies.size());
    st.cfg = cfg;
    st.rng = sim::Rng(cfg.seed, "sched");
    for (int i = 0; i < MAXT; ++i)
        st.vc[i][i] = 1;
    g = &st;
    if (cfg.mode == 1 && !cfg.useExplicit)
    {
        const uint64_t horizon = cfg.horizon ? cfg.horizon : 10000;
        for (int i = 0; i < cfg.points; ++i)
            st.changePoints.push_back(1 + st.rng.below(horizon));
        std::sort(st.changePoints.begin(), st.changePoints.end());
    }
    st.nextSwitchAt = 1 + st.rng.below(static_cast<uint64_t>(cfg.meanRun < 1 ? 1 : cfg.meanRun) + 1);
    std::vector<std::thread> threads;
    for (int i = 0; i < st.n; ++i)
        threads.emplace_back(threadMain, i, &bodies[static_cast<size_t>(i)]);
    {
        std::unique_lock<std::mutex> lk(st.m);
        st.current = static_cast<int>(st.rng.below(static_cast<uint64_t>(st.n)));
        if (cfg.useExplicit)
        {
            st.current = 0;
            if (!st.cfg.explicitSwitches.empty() && st.cfg.explicitSwitches[0].first == 0)
            {
                st.current = st.cfg.explicitSwitches[0].second % st.n;
                st.explicitPos = 1;
            }
        }
        st.rep.scheduleHash = sim::hashU64(static_cast<uint64_t>(st.current), 0x5C4ED);
        st.rep.switchLog.emplace_back(0, st.current);
        st.cv.notify_all();
        st.cv.wait(lk, [&] { return st.current == -2; });
    }
    for (auto& t : threads)
        t.join();
    st.rep.yields = st.yieldIdx;
    if (st.conflictsSeen > static_cast<int>(st.rep.conflicts.size()))
        st.rep.conflicts.push_back("(" + std::to_string(st.conflictsSeen) + " conflicting accesses in total)");
    g = nullptr;
    return st.rep;
}

uint64_t countYieldPoints(const std::function<void()>& body)
{
    t_count = 0;
    t_counting = true;
    body();
    t_counting = false;
    return t_count;
}

const uint8_t* internInput(const uint8_t* data, size_t n)
{
    // Only one scheduled thread runs at a time and nothing in here is a yield point (t_inRt), so the pool needs no lock
    // of its own - a lock would be a happens-before edge between the threads that the library does not have.
    ++t_inRt;
    static std::map<std::string, uint8_t*>* pool = new std::map<std::string, uint8_t*>();
    std::string key(reinterpret_cast<const char*>(data), n);
    auto it = pool->find(key);
    bool fresh = false;
    if (it == pool->end())
    {
        uint8_t* b = static_cast<uint8_t*>(malloc(n ? n : 1));
        for (size_t i = 0; i < n; ++i)
            b[i] = data[i];
        it = pool->emplace(std::move(key), b).first;
        fresh = true;
    }
    const uint8_t* r = it->second;
    --t_inRt;
    // the block may be memory a finished thread released in its TLS destructors (after it stopped being scheduled, so
    // nothing forgot its access history): whatever is recorded for these addresses belongs to an earlier life of them
    if (fresh)
        forgetRange(const_cast<uint8_t*>(r), n);
    return r;
}

}  // namespace sched

// ------------------------------------------------------------------------------------------------ compiler callbacks
extern "C"
{
    void __sanitizer_cov_trace_pc_guard_init(uint32_t* start, uint32_t* stop)
    {
        static uint32_t n = 0;
        for (uint32_t* p = start; p < stop; ++p)
            if (!*p)
                *p = ++n;
    }
    void __sanitizer_cov_trace_pc_guard(uint32_t*)
    {
        yieldPoint();
    }
#define SIM_LOAD(N)                                                                                                  \
    void __sanitizer_cov_load##N(void* a)                                                                            \
    {                                                                                                                \
        access(reinterpret_cast<uintptr_t>(a), N, false, reinterpret_cast<uintptr_t>(__builtin_return_address(0))); \
        yieldPoint();                                                                                                \
    }
#define SIM_STORE(N)                                                                                                \
    void __sanitizer_cov_store##N(void* a)                                                                          \
    {                                                                                                               \
        access(reinterpret_cast<uintptr_t>(a), N, true, reinterpret_cast<uintptr_t>(__builtin_return_address(0))); \
        yieldPoint();                                                                                               \
    }
    SIM_LOAD(1)
    SIM_LOAD(2)
    SIM_LOAD(4)
    SIM_LOAD(8)
    SIM_LOAD(16)
    SIM_STORE(1)
    SIM_STORE(2)
    SIM_STORE(4)
    SIM_STORE(8)
    SIM_STORE(16)

    // link-time wraps (the library is compiled with -fno-builtin so that these are real calls)
    void* __real_memcpy(void*, const void*, size_t);
    void* __real_memmove(void*, const void*, size_t);
    void* __real_memset(void*, int, size_t);
    void* __wrap_memcpy(void* d, const void* s, size_t n)
    {
        if (t_tid >= 0 && !t_inRt && n)
        {
            const uintptr_t pc = reinterpret_cast<uintptr_t>(__builtin_return_address(0));
            access(reinterpret_cast<uintptr_t>(s), n, false, pc);
            access(reinterpret_cast<uintptr_t>(d), n, true, pc);
            yieldPoint();
        }
        return __real_memcpy(d, s, n);
    }
    void* __wrap_memmove(void* d, const void* s, size_t n)
    {
        if (t_tid >= 0 && !t_inRt && n)
        {
            const uintptr_t pc = reinterpret_cast<uintptr_t>(__builtin_return_address(0));
            access(reinterpret_cast<uintptr_t>(s), n, false, pc);
            access(reinterpret_cast<uintptr_t>(d), n, true, pc);
            yieldPoint();
        }
        return __real_memmove(d, s, n);
    }
    void* __wrap_memset(void* d, int c, size_t n)
    {
        if (t_tid >= 0 && !t_inRt && n)
        {
            access(reinterpret_cast<uintptr_t>(d), n, true, reinterpret_cast<uintptr_t>(__builtin_return_address(0)));
            yieldPoint();
        }
        return __real_memset(d, c, n);
    }

    // static-init guards: a thread parked inside an initialiser must not deadlock the others, and a finished
    // initialisation orders the initialiser's writes before later readers
    int __real___cxa_guard_acquire(uint64_t*);
    void __real___cxa_guard_release(uint64_t*);
    void __real___cxa_guard_abort(uint64_t*);
    int __wrap___cxa_guard_acquire(uint64_t* guard)
    {
        if (t_tid < 0 || t_inRt || !g)
            return __real___cxa_guard_acquire(guard);
        ++t_inRt;
        for (;;)
        {
            auto it = g->guardOwner.find(guard);
            if (it == g->guardOwner.end() || it->second == t_tid)
                break;
            int owner = it->second;
            if (g->finished[owner])
                break;
            switchTo(owner);  // let the initialising thread go on
        }
        --t_inRt;
        int r = __real___cxa_guard_acquire(guard);
        ++t_inRt;
        if (r)
            g->guardOwner[guard] = t_tid;
        else
        {
            auto v = g->guardVc.find(guard);
            if (v != g->guardVc.end())
                for (int u = 0; u < MAXT; ++u)
                    if (v->second[static_cast<size_t>(u)] > g->vc[t_tid][u])
                        g->vc[t_tid][u] = v->second[static_cast<size_t>(u)];
        }
        --t_inRt;
        return r;
    }
    void __wrap___cxa_guard_release(uint64_t* guard)
    {
        if (t_tid >= 0 && !t_inRt && g)
        {
            ++t_inRt;
            auto& v = g->guardVc[guard];
            for (int u = 0; u < MAXT; ++u)
                if (g->vc[t_tid][u] > v[static_cast<size_t>(u)])
                    v[static_cast<size_t>(u)] = g->vc[t_tid][u];
            g->vc[t_tid][t_tid]++;
            g->guardOwner.erase(guard);
            --t_inRt;
        }
        __real___cxa_guard_release(guard);
    }
    void __wrap___cxa_guard_abort(uint64_t* guard)
    {
        if (t_tid >= 0 && !t_inRt && g)
        {
            ++t_inRt;
            g->guardOwner.erase(guard);
            --t_inRt;
        }
        __real___cxa_guard_abort(guard);
    }
}

// ------------------------------------------------------------------------------------------------ mutexes and once flags
// A scheduled thread must never block in the kernel while it holds the baton, and lock/unlock, once-initialisation are
// happens-before edges for the detector.
#include <errno.h>
#include <pthread.h>
namespace
{
void acquireFrom(void* obj)
{
    auto v = g->syncVc.find(obj);
    if (v != g->syncVc.end())
        for (int u = 0; u < MAXT; ++u)
            if (v->second[static_cast<size_t>(u)] > g->vc[t_tid][u])
                g->vc[t_tid][u] = v->second[static_cast<size_t>(u)];
}
void releaseTo(void* obj)
{
    auto& v = g->syncVc[obj];
    for (int u = 0; u < MAXT; ++u)
        if (g->vc[t_tid][u] > v[static_cast<size_t>(u)])
            v[static_cast<size_t>(u)] = g->vc[t_tid][u];
    g->vc[t_tid][t_tid]++;
}
}  // namespace
extern "C"
{
    int __real_pthread_mutex_lock(pthread_mutex_t*);
    int __real_pthread_mutex_trylock(pthread_mutex_t*);
    int __real_pthread_mutex_unlock(pthread_mutex_t*);
    int __real_pthread_once(pthread_once_t*, void (*)(void));
    int __wrap_pthread_mutex_lock(pthread_mutex_t* m)
    {
        if (t_tid < 0 || t_inRt || !g)
            return __real_pthread_mutex_lock(m);
        ++t_inRt;
        int rc;
        while ((rc = __real_pthread_mutex_trylock(m)) == EBUSY)
        {
            auto it = g->syncOwner.find(m);
            int owner = it == g->syncOwner.end() ? pickOther(t_tid) : it->second;
            if (owner < 0 || owner == t_tid || g->finished[owner])
                owner = pickOther(t_tid);
            if (owner < 0)
                break;
            switchTo(owner);  // let the holder go on instead of blocking with the baton in hand
        }
        if (rc == EBUSY)
            rc = __real_pthread_mutex_lock(m);
        if (rc == 0)
        {
            g->syncOwner[m] = t_tid;
            acquireFrom(m);
        }
        --t_inRt;
        return rc;
    }
    int __wrap_pthread_mutex_trylock(pthread_mutex_t* m)
    {
        int rc = __real_pthread_mutex_trylock(m);
        if (rc == 0 && t_tid >= 0 && !t_inRt && g)
        {
            ++t_inRt;
            g->syncOwner[m] = t_tid;
            acquireFrom(m);
            --t_inRt;
        }
        return rc;
    }
    int __wrap_pthread_mutex_unlock(pthread_mutex_t* m)
    {
        if (t_tid >= 0 && !t_inRt && g)
        {
            ++t_inRt;
            releaseTo(m);
            g->syncOwner.erase(m);
            --t_inRt;
        }
        return __real_pthread_mutex_unlock(m);
    }
    int __wrap_pthread_once(pthread_once_t* once, void (*fn)(void))
    {
        if (t_tid < 0 || t_inRt || !g)
            return __real_pthread_once(once, fn);
        ++t_inRt;
        for (;;)
        {
            if (g->onceDone.count(once))
                break;
            auto it = g->syncOwner.find(once);
            if (it == g->syncOwner.end() || it->second == t_tid || g->finished[it->second])
                break;
            switchTo(it->second);  // another thread is inside the initialiser: let it finish
        }
        if (g->onceDone.count(once))
        {
            acquireFrom(once);
            --t_inRt;
            return __real_pthread_once(once, fn);  // already done: returns at once
        }
        g->syncOwner[once] = t_tid;
        --t_inRt;
        int rc = __real_pthread_once(once, fn);  // runs fn on this thread (instrumented, may be preempted)
        ++t_inRt;
        releaseTo(once);
        g->onceDone[once] = true;
        g->syncOwner.erase(once);
        --t_inRt;
        return rc;
    }
}

// ------------------------------------------------------------------------------------------------ heap: forget released ranges
// ------------------------------------------------------------------------------------------------ std::atomic
// The library objects of this variant are additionally compiled with TSan's ATOMICS-ONLY instrumentation
// (-fsanitize=thread -mllvm -tsan-instrument-memory-accesses=0 ...; no TSan runtime is linked): every std::atomic
// operation arrives here WITH its memory order. The operation itself is carried out (the baton makes it atomic), it is a
// yield point, and it is a happens-before edge exactly as far as its memory order says: an acquire (consume, acq_rel,
// seq_cst) load / RMW joins the clock released into the variable, a release (acq_rel, seq_cst) store / RMW releases the
// thread's clock into it, a relaxed RMW continues the release sequence, a relaxed store ends it. So a spin lock built from
// acquire / release atomics orders what it protects - and one built from relaxed atomics does not, although it excludes.
// A thread that keeps operating on one atomic without any other progress (spinning) hands the baton on.
namespace
{
enum
{
    MO_RELAXED = 0,
    MO_CONSUME = 1,
    MO_ACQUIRE = 2,
    MO_RELEASE = 3,
    MO_ACQ_REL = 4,
    MO_SEQ_CST = 5
};
thread_local const volatile void* t_spinAddr = nullptr;
thread_local unsigned t_spinCount = 0;

inline bool acquires(int mo)
{
    return mo == MO_CONSUME || mo == MO_ACQUIRE || mo == MO_ACQ_REL || mo == MO_SEQ_CST;
}
inline bool releases(int mo)
{
    return mo == MO_RELEASE || mo == MO_ACQ_REL || mo == MO_SEQ_CST;
}
// kind: 0 load, 1 store, 2 read-modify-write
void atomicOp(const volatile void* addr, int kind, int mo, bool noProgress = false)
{
    if (t_tid < 0 || t_inRt)
        return;
    yieldPoint();
    ++t_inRt;
    void* key = const_cast<void*>(addr);
    if (kind != 1 && acquires(mo))
    {
        acquireFrom(key);
        // the inline fast path of a function-local static is an ATOMIC acquire load of the guard byte (it arrives here, not
        // as a plain load, since the atomics carry their memory order): what __cxa_guard_release published is joined too
        auto gv = g->guardVc.find(key);
        if (gv != g->guardVc.end())
            for (int u = 0; u < MAXT; ++u)
                if (gv->second[static_cast<size_t>(u)] > g->vc[t_tid][u])
                    g->vc[t_tid][u] = gv->second[static_cast<size_t>(u)];
    }
    if (kind != 0)
    {
        if (releases(mo))
            releaseTo(key);
        else if (kind == 1)
            g->syncVc.erase(key);  // a relaxed store ends the release sequence
    }
    // spinning: the same atomic again and again without changing it (a failing test_and_set / compare_exchange, a polling load)
    if (!noProgress)
    {
        t_spinAddr = nullptr;
        t_spinCount = 0;
    }
    else if (addr == t_spinAddr)
    {
        if (++t_spinCount >= 48)
        {
            t_spinCount = 0;
            const int target = pickOther(t_tid);
            if (target >= 0 && target != t_tid && !g->finished[target])
                switchTo(target);
        }
    }
    else
    {
        t_spinAddr = addr;
        t_spinCount = 0;
    }
    --t_inRt;
}
}  // namespace

extern "C"
{
    void __tsan_init()
    {
    }
    void __tsan_atomic_thread_fence(int mo)
    {
        // a fence is modelled as an operation on one global location (coarser than the standard: more edges, never fewer)
        static char fenceObj;
        atomicOp(&fenceObj, 2, mo);
    }
    void __tsan_atomic_signal_fence(int)
    {
    }
#define SIM_TSAN_ATOMICS(N, T)                                                                                                          \
    T __tsan_atomic##N##_load(const volatile T* a, int mo)                                                                              \
    {                                                                                                                                   \
        atomicOp(a, 0, mo, true);                                                                                                       \
        return __atomic_load_n(a, __ATOMIC_SEQ_CST);                                                                                    \
    }                                                                                                                                   \
    void __tsan_atomic##N##_store(volatile T* a, T v, int mo)                                                                           \
    {                                                                                                                                   \
        atomicOp(a, 1, mo);                                                                                                             \
        __atomic_store_n(a, v, __ATOMIC_SEQ_CST);                                                                                       \
    }                                                                                                                                   \
    T __tsan_atomic##N##_exchange(volatile T* a, T v, int mo)                                                                           \
    {                                                                                                                                   \
        atomicOp(a, 2, mo, __atomic_load_n(a, __ATOMIC_SEQ_CST) == v);                                                                  \
        return __atomic_exchange_n(a, v, __ATOMIC_SEQ_CST);                                                                             \
    }                                                                                                                                   \
    T __tsan_atomic##N##_fetch_add(volatile T* a, T v, int mo)                                                                          \
    {                                                                                                                                   \
        atomicOp(a, 2, mo);                                                                                                             \
        return __atomic_fetch_add(a, v, __ATOMIC_SEQ_CST);                                                                              \
    }                                                                                                                                   \
    T __tsan_atomic##N##_fetch_sub(volatile T* a, T v, int mo)                                                                          \
    {                                                                                                                                   \
        atomicOp(a, 2, mo);                                                                                                             \
        return __atomic_fetch_sub(a, v, __ATOMIC_SEQ_CST);                                                                              \
    }                                                                                                                                   \
    T __tsan_atomic##N##_fetch_and(volatile T* a, T v, int mo)                                                                          \
    {                                                                                                                                   \
        atomicOp(a, 2, mo);                                                                                                             \
        return __atomic_fetch_and(a, v, __ATOMIC_SEQ_CST);                                                                              \
    }                                                                                                                                   \
    T __tsan_atomic##N##_fetch_or(volatile T* a, T v, int mo)                                                                           \
    {                                                                                                                                   \
        atomicOp(a, 2, mo);                                                                                                             \
        return __atomic_fetch_or(a, v, __ATOMIC_SEQ_CST);                                                                               \
    }                                                                                                                                   \
    T __tsan_atomic##N##_fetch_xor(volatile T* a, T v, int mo)                                                                          \
    {                                                                                                                                   \
        atomicOp(a, 2, mo);                                                                                                             \
        return __atomic_fetch_xor(a, v, __ATOMIC_SEQ_CST);                                                                              \
    }                                                                                                                                   \
    T __tsan_atomic##N##_fetch_nand(volatile T* a, T v, int mo)                                                                         \
    {                                                                                                                                   \
        atomicOp(a, 2, mo);                                                                                                             \
        return __atomic_fetch_nand(a, v, __ATOMIC_SEQ_CST);                                                                             \
    }                                                                                                                                   \
    int __tsan_atomic##N##_compare_exchange_strong(volatile T* a, T* c, T v, int mo, int fmo)                                           \
    {                                                                                                                                   \
        const bool will = __atomic_load_n(a, __ATOMIC_SEQ_CST) == *c;                                                                   \
        atomicOp(a, will ? 2 : 0, will ? mo : fmo, !will);                                                                                     \
        return __atomic_compare_exchange_n(a, c, v, false, __ATOMIC_SEQ_CST, __ATOMIC_SEQ_CST);                                         \
    }                                                                                                                                   \
    int __tsan_atomic##N##_compare_exchange_weak(volatile T* a, T* c, T v, int mo, int fmo)                                             \
    {                                                                                                                                   \
        return __tsan_atomic##N##_compare_exchange_strong(a, c, v, mo, fmo);                                                            \
    }                                                                                                                                   \
    T __tsan_atomic##N##_compare_exchange_val(volatile T* a, T c, T v, int mo, int fmo)                                                 \
    {                                                                                                                                   \
        __tsan_atomic##N##_compare_exchange_strong(a, &c, v, mo, fmo);                                                                  \
        return c;                                                                                                                       \
    }
    SIM_TSAN_ATOMICS(8, char)
    SIM_TSAN_ATOMICS(16, short)
    SIM_TSAN_ATOMICS(32, int)
    SIM_TSAN_ATOMICS(64, long)
#undef SIM_TSAN_ATOMICS
}

namespace
{
constexpr size_t HDR = 16;
inline void* allocTracked(size_t n)
{
    void* raw = std::malloc(n + HDR);
    if (!raw)
        throw std::bad_alloc();
    *static_cast<size_t*>(raw) = n;
    void* user = static_cast<char*>(raw) + HDR;
    forgetRange(user, n);
    return user;
}
inline void freeTracked(void* p) noexcept
{
    if (!p)
        return;
    void* raw = static_cast<char*>(p) - HDR;
    forgetRange(p, *static_cast<size_t*>(raw));
    std::free(raw);
}
}  // namespace

void* operator new(size_t n)
{
    return allocTracked(n);
}
void* operator new[](size_t n)
{
    return allocTracked(n);
}
void* operator new(size_t n, const std::nothrow_t&) noexcept
{
    try
    {
        return allocTracked(n);
    }
    catch (...)
    {
        return nullptr;
    }
}
void* operator new[](size_t n, const std::nothrow_t&) noexcept
{
    try
    {
        return allocTracked(n);
    }
    catch (...)
    {
        return nullptr;
    }
}
void operator delete(void* p) noexcept
{
    freeTracked(p);
}
void operator delete[](void* p) noexcept
{
    freeTracked(p);
}
void operator delete(void* p, size_t) noexcept
{
    freeTracked(p);
}
void operator delete[](void* p, size_t) noexcept
{
    freeTracked(p);
}
#endif
