// world_ops.cpp -- sending nodes: capture modules (real Encoder) with the sender-side oracles,
// and the stub peers (raw CMP writer, TECMP writer)
#include "world_int.h"
#include <cstdio>
#include <cstdlib>

#include <cstring>

namespace sim
{

static uint8_t defaultPtype(int kind)
{
    uint8_t mt = 1, pt = 0x20;
    wire::typeOfKind(static_cast<wire::Kind>(kind), mt, pt);
    return pt;
}
static uint8_t defaultMtype(int kind)
{
    uint8_t mt = 1, pt = 0x20;
    wire::typeOfKind(static_cast<wire::Kind>(kind), mt, pt);
    return mt;
}

// ---------------------------------------------------------------------------------------------- capture module
void World::opCmSet(const Item& op)
{
    Node& n = nodeOf(op);
    if (!n.enc)
        return;
    const int64_t val = op.get("val");
    res.apiCalls++;
    switch (op.get("what"))
    {
        case 0:
            n.enc->setDev(static_cast<uint16_t>(val));
            n.dev = static_cast<uint16_t>(val);
            n.lastCtr = 0;
            fault("cm-reconfigure");
            break;
        case 1:
            n.enc->setStream(static_cast<uint8_t>(val));
            n.stream = static_cast<uint8_t>(val);
            n.lastCtr = 0;
            fault("cm-reconfigure");
            break;
        default:
            n.enc->restart();
            n.lastCtr = 0;
            fault("cm-restart");
            break;
    }
    if (is("C09"))
    {
        if (n.enc->counter() != n.lastCtr)
            violate("api.counter", "getSequenceCounter() is " + std::to_string(n.enc->counter()) + " after a reset, expected 0");
        if (n.enc->dev() != n.dev || n.enc->stream() != n.stream)
            violate("api.ids", "getDeviceId()/getStreamId() do not return the configured ids");
    }
    ev(0xC5E7 + val);
}

void World::opEnc(const Item& op)
{
    Node& n = nodeOf(op);
    if (!n.enc)
        return;
    // C07/C08 quantify over max <= 65535+24; C01/C10 put no upper bound on it
    const int64_t maxLimit = (is("C07") || is("C08") || is("C09")) ? 65559 : 400000;
    size_t maxB = static_cast<size_t>(std::min<int64_t>(std::max<int64_t>(25, op.get("max", 1500)), maxLimit));
    size_t minB = static_cast<size_t>(std::min<int64_t>(std::max<int64_t>(0, op.get("min", 0)), static_cast<int64_t>(maxB)));
    const uint8_t ver = static_cast<uint8_t>(std::max<int64_t>(1, op.get("ver", 1) & 0xFF));
    const int mode = static_cast<int>(op.get("mode", 0));

    std::vector<model::BatchMsg> batch;
    std::vector<int> builds;
    std::vector<uint64_t> junks;
    for (auto& m : op.sub)
    {
        if (m.tag != "m")
            continue;
        model::BatchMsg b;
        const int kind = static_cast<int>(m.get("kind", 0));
        b.msgId = static_cast<uint32_t>(m.get("id", 1));
        b.mtype = static_cast<uint8_t>(m.has("mtype") ? m.get("mtype") : defaultMtype(kind));
        b.ptype = static_cast<uint8_t>(m.has("ptype") ? m.get("ptype") : defaultPtype(kind));
        const bool unrestricted = is("C09") || is("C10");  // these two quantify over arbitrary batches; the others exclude type 0 and empty payloads
        if (b.mtype == 0 && !(unrestricted && m.get("mtype0", 0)))
            b.mtype = 1;
        if (b.ptype == 0)
            b.ptype = 1;
        // a typed kind keeps its own type bytes
        if (kind != wire::K_GENERIC)
        {
            b.mtype = defaultMtype(kind);
            b.ptype = defaultPtype(kind);
        }
        else if (wire::kindOf(b.mtype, b.ptype) != wire::K_GENERIC)
        {
            b.ptype = 0x20;  // generic content must not claim a typed layout
        }
        // (C07 / C08 / C10 say nothing about the version: there a packet may bring its own; C01 / C09 quantify over one version per batch)
        b.version = (is("C07") || is("C08") || is("C10")) && m.has("pver") ? static_cast<uint8_t>(std::max<int64_t>(1, m.get("pver") & 0xFF)) : ver;
        b.ts = static_cast<uint64_t>(m.get("ts", 0));
        b.id32 = static_cast<uint32_t>(m.get("ifid", 0));
        b.flags = static_cast<uint8_t>(m.get("flags", 0)) & static_cast<uint8_t>(~wire::FLAG_ERR_IN_PAYLOAD);
        size_t len = static_cast<size_t>(std::min<int64_t>(std::max<int64_t>(unrestricted && m.get("zerolen", 0) ? 0 : 1, m.get("len", 1)), 65535));
        const int64_t rep = std::min<int64_t>(std::max<int64_t>(1, m.get("rep", 1)), 20000);
        for (int64_t q = 0; q < rep; ++q)
        {
            model::BatchMsg c = b;
            c.msgId = b.msgId + static_cast<uint32_t>(q);
            c.payload = makePayload(kind, len, c.msgId);
            if (len == 0)
                c.payload.clear();  // (only C09 / C10 batches: an empty payload)
            if (kind == wire::K_IFSTAT && m.has("pifid") && c.payload.size() >= 4)
                wire::wr32(c.payload.data(), static_cast<uint32_t>(m.get("pifid")));
            if (m.has("tailx") && !c.payload.empty())
            {
                // the same content with one of its last bytes changed - only where that keeps the payload well-formed
                Bytes alt = c.payload;
                alt[alt.size() - 1 - static_cast<size_t>(std::max<int64_t>(0, m.get("tailo", 0))) % alt.size()] ^= static_cast<uint8_t>(m.get("tailx"));
                if (wire::classify(b.mtype, b.ptype, alt.data(), alt.size()) == wire::classify(b.mtype, b.ptype, c.payload.data(), c.payload.size()))
                    c.payload = std::move(alt);
            }
            builds.push_back(static_cast<int>(m.get("build", 0)));
            junks.push_back(mix64(c.msgId * 31ULL + 5));
            batch.push_back(std::move(c));
        }
    }
    std::vector<lib::MsgSpec> specs(batch.size());
    bool typeChange = false;
    for (size_t i = 0; i < batch.size(); ++i)
    {
        lib::MsgSpec& s = specs[i];
        s.version = batch[i].version;
        s.mtype = batch[i].mtype;
        s.ptype = batch[i].ptype;
        s.ts = batch[i].ts;
        s.id32 = batch[i].id32;
        s.flags = batch[i].flags;
        s.build = builds[i];
        s.payload = batch[i].payload.data();
        s.len = batch[i].payload.size();
        s.junk = junks[i];
        if (i && batch[i].mtype != batch[i - 1].mtype)
            typeChange = true;
    }

    if (!is("C09") && op.has("abort") && !specs.empty())
    {
        // fault: an earlier call over these packets, with another frame size, that never returned (exception out of the
        // caller's iterator, or a failing allocation). C10: what it left behind must not show in the call that follows; the
        // same holds for what C01 / C07 / C08 say about that following call. (Not C09: which counter values a call that
        // never returned may have used up is not stated.)
        const size_t amax = static_cast<size_t>(std::min<int64_t>(std::max<int64_t>(25, op.get("abmax", static_cast<int64_t>(maxB))), maxLimit));
        if (n.enc->encodeAborted(specs, std::min(minB, amax), amax, static_cast<size_t>(op.get("abort")), static_cast<int>(op.get("abwhere", 0))))
            fault(op.get("abwhere", 0) == 2 ? "encode-call-aborted-by-allocation-failure" : "encode-call-aborted-by-exception");
        res.apiCalls++;
    }
    std::vector<cmpfb::Operand> cmpOps;
    if (cmpFeedback && encDepth == 0 && encDerivedLeft > 0 && batch.size() <= 16)
        cmpfb::arm(&cmpOps);
    std::vector<Bytes> frames = n.enc->encode(specs, minB, maxB, mode);
    cmpfb::disarm();
    if (n.enc->shadowDiverged())
        violate("life.fork-diverged", "a copy of the encoder given the same batch returned other frames than the original");
    res.apiCalls++;
    n.encodeCalls++;
    if (getenv("SIM_TRACE"))  // debugging aid for replayed plans; never set by the checks
        for (auto& fr : frames)
        {
            fprintf(stderr, "TRACE frame %zu bytes:", fr.size());
            for (size_t i = 0; i < fr.size() && i < 96; ++i)
                fprintf(stderr, " %02x", fr[i]);
            fprintf(stderr, "\n");
        }
    ev(0xE0C0 + frames.size());

    // ----- probes about the batch
    const size_t cap = maxB - wire::CMP_HDR;
    bool anySeg = false, anyUnseg = false;
    for (auto& b : batch)
    {
        const size_t need = wire::MSG_HDR + b.payload.size();
        if (need > cap)
        {
            anySeg = true;
            if (need == cap + 1)
                probe("one-byte-too-long-for-empty-frame");
            if ((b.payload.size() + cap - wire::MSG_HDR - 1) / (cap - wire::MSG_HDR) >= 3)
                probe("three-or-more-segments");
        }
        else
        {
            anyUnseg = true;
            if (need == cap)
                probe("packet-exactly-fills-frame");
        }
        if (b.payload.size() == 65535)
            probe("payload-65535");
        if (b.payload.empty())
            probe("packet-with-empty-payload");
        if (b.mtype == 0)
            probe("packet-with-message-type-0");
    }
    if (batch.empty())
        probe("empty-batch");
    if (anySeg && anyUnseg)
        probe("mixed-segmented-and-aggregated");
    else if (anySeg)
        probe("segmented-only");
    else if (batch.size() > 1)
        probe("aggregated-only");
    if (typeChange)
        probe("message-type-change-in-batch");
    if (n.encodeCalls > 1 && anySeg)
        probe("nth-call-needs-segmentation");
    if (n.encodeCalls > 1)
        probe("nth-call-on-same-encoder");
    if (n.encodeCalls == 257)
        probe("more-than-256-calls-on-one-encoder");
    if (minB == maxB)
        probe("min-equals-max");
    for (auto& fr : frames)
    {
        wire::FrameParse fp = wire::parseFrame(fr.data(), fr.size());
        if (fr.size() > fp.used + 64)
        {
            probe("frame-padded-by-more-than-64");
            break;
        }
    }

    // ----- C07: walker
    model::Walked w;
    model::SenderVerdict v7 = model::walkFrames(frames, batch, minB, maxB, w);
    if (is("C07") && !v7.ok())
        violate(v7.rule, v7.detail);
    // ----- C08: packing rules
    if (is("C08"))
    {
        model::SenderVerdict v8 = model::checkPacking(frames, batch, maxB, w);
        if (!v8.ok())
            violate(v8.rule, v8.detail);
        if (w.parsed)
            probe("packing-compared");
    }
    // ----- C09: headers and counters
    if (is("C09"))
    {
        size_t nonEmpty = 0;
        for (size_t f = 0; f < frames.size(); ++f)
        {
            if (frames[f].size() < wire::CMP_HDR)
            {
                violate("hdr.counter", "frame shorter than a header");
                continue;
            }
            wire::CmpHdr h = wire::parseCmpHdr(frames[f].data());
            const uint16_t want = static_cast<uint16_t>(n.lastCtr + 1);
            if (h.ctr != want)
                violate("hdr.counter", "frame " + std::to_string(f) + " of call " + std::to_string(n.encodeCalls) + " carries counter " +
                                           std::to_string(h.ctr) + ", expected " + std::to_string(want));
            if (want == 0)
                probe("counter-wrapped");
            n.lastCtr = h.ctr;
            if (h.dev != n.dev)
                violate("hdr.device", "frame carries device id " + model::hex(h.dev) + ", configured " + model::hex(n.dev));
            if (h.stream != n.stream)
                violate("hdr.stream", "frame carries stream id " + model::hex(h.stream) + ", configured " + model::hex(n.stream));
            if (h.version != ver)
                violate("hdr.version", "frame carries version " + model::hex(h.version) + ", batch has " + model::hex(ver));
            if (w.parsed)
            {
                wire::FrameParse fp = wire::parseFrame(frames[f].data(), frames[f].size());
                if (!fp.msgs.empty() && nonEmpty < w.structure.size())
                {
                    for (auto& pm : w.structure[nonEmpty])
                    {
                        const uint8_t mt = batch[pm.pkt].mtype;
                        if (h.mtype != mt)
                        {
                            violate("hdr.type", "frame " + std::to_string(f) + " announces message type " + model::hex(h.mtype) +
                                                    " but carries a message of type " + model::hex(mt));
                            break;
                        }
                    }
                    ++nonEmpty;
                }
            }
        }
        if (n.enc->counter() != n.lastCtr)
            violate("api.counter", "getSequenceCounter() returns " + std::to_string(n.enc->counter()) + " but the last frame carried " +
                                       std::to_string(n.lastCtr));
        if (n.enc->dev() != n.dev || n.enc->stream() != n.stream)
            violate("api.ids", "getDeviceId()/getStreamId() do not return the configured ids");
    }
    else if (!frames.empty() && frames.back().size() >= wire::CMP_HDR)
    {
        n.lastCtr = wire::parseCmpHdr(frames.back().data()).ctr;
    }
    // ----- C10: fresh twin
    if (is("C10"))
    {
        lib::Enc twin;
        twin.setDev(n.dev);
        twin.setStream(n.stream);
        std::vector<Bytes> tf = twin.encode(specs, minB, maxB, mode);
        res.apiCalls++;
        if (tf.size() != frames.size())
            violate("twin.frame-count", "call " + std::to_string(n.encodeCalls) + " on the long-lived encoder produced " +
                                            std::to_string(frames.size()) + " frames, a fresh encoder " + std::to_string(tf.size()));
        else
        {
            bool haveOff = false;
            uint16_t off = 0;
            for (size_t f = 0; f < frames.size(); ++f)
            {
                const Bytes &a = frames[f], &b = tf[f];
                if (a.size() != b.size())
                {
                    violate("twin.bytes", "frame " + std::to_string(f) + " has " + std::to_string(a.size()) + " bytes, fresh encoder " +
                                              std::to_string(b.size()));
                    break;
                }
                bool same = true;
                for (size_t i = 0; i < a.size(); ++i)
                    if (i != 6 && i != 7 && a[i] != b[i])
                    {
                        violate("twin.bytes", "frame " + std::to_string(f) + " differs from the fresh encoder's at byte " + std::to_string(i));
                        same = false;
                        break;
                    }
                if (!same)
                    break;
                if (a.size() >= 8)
                {
                    uint16_t d = static_cast<uint16_t>(wire::rd16(a.data() + 6) - wire::rd16(b.data() + 6));
                    if (!haveOff)
                    {
                        off = d;
                        haveOff = true;
                    }
                    else if (d != off)
                    {
                        violate("twin.counter-offset", "sequence counter offset to the fresh encoder is not constant");
                        break;
                    }
                }
            }
        }
        if (n.encodeCalls > 1)
            probe("twin-compared-after-history");
    }

    // ----- emission with expectations
    std::vector<InFlight> fl(frames.size());
    for (size_t f = 0; f < frames.size(); ++f)
        fl[f].bytes = std::move(frames[f]);
    Endpoint ep{n.dev, n.stream};
    std::vector<ExpPacket> exps(batch.size());
    for (size_t i = 0; i < batch.size(); ++i)
    {
        ExpPacket& e = exps[i];
        e.dev = n.dev;
        e.stream = n.stream;
        e.version = batch[i].version;
        e.mtype = batch[i].mtype;
        e.ptype = batch[i].ptype;
        e.ts = batch[i].ts;
        e.id32 = batch[i].id32;
        e.flags = batch[i].flags;
        e.payload = batch[i].payload;
        e.validity = wire::MUST_VALID;
        e.msgId = batch[i].msgId;
    }
    if (is("C01"))
        for (auto& e : exps)
            expectQueue[ep].push_back(e);
    if (is("C06"))
    {
        // frame ids are assigned by emit() in order
        const int base = nextFrameId;
        for (size_t i = 0; i < batch.size(); ++i)
        {
            uint64_t h = hashExp(exps[i]);
            sentHashes[ep].insert(h);
            if (w.parsed && !w.framesOfPacket[i].empty())
            {
                SentMsg sm;
                sm.hash = h;
                sm.ep = ep;
                for (int f : w.framesOfPacket[i])
                    sm.frameIds.push_back(base + f);
                sent.push_back(sm);
                fl[w.framesOfPacket[i].back()].completes.push_back(static_cast<int>(sent.size() - 1));
                if (w.framesOfPacket[i].size() > 1)
                    for (int f : w.framesOfPacket[i])
                        fl[f].isSegmentFrame = true;
            }
        }
    }
    emit(op, n, fl);

    // ----- calls derived from the comparison operands of this one (edgecount.cpp): where the encoder (or the packet / payload
    // code under it) compared a constant with a value that is one of this call's own scalars - a payload length, the frame
    // size limits, the version, a flag byte, an id - the same call is made again with that scalar set to the constant, on
    // the same long-lived encoder, and judged by the same oracles. Bounded: one generation, 3 per call, 6 per run.
    if (!cmpOps.empty())
    {
        int made = 0;
        ++encDepth;
        for (auto& o : cmpOps)
        {
            if (made >= 3 || encDerivedLeft <= 0)
                break;
            Item d = op;
            for (auto& sub : d.sub)
                sub.erase("rep");
            d.erase("abort");
            bool changed = false;
            const int64_t c = static_cast<int64_t>(o.constant);
            auto tryScalar = [&](Item& it, const char* key, int64_t cur, int64_t lo, int64_t hi)
            {
                if (changed)
                    return;
                for (int64_t delta : {int64_t(0), int64_t(16), int64_t(-8), int64_t(-24), int64_t(24), int64_t(8)})
                    if (static_cast<int64_t>(o.observed) == cur + delta && c - delta >= lo && c - delta <= hi && c - delta != cur)
                    {
                        it.set(key, c - delta);
                        changed = true;
                        return;
                    }
            };
            tryScalar(d, "max", static_cast<int64_t>(maxB), 25, maxLimit);
            tryScalar(d, "min", static_cast<int64_t>(minB), 0, static_cast<int64_t>(maxB));
            if (o.width == 1)
                tryScalar(d, "ver", ver, 1, 255);
            size_t bi = 0;
            for (auto& sub : d.sub)
            {
                if (sub.tag != "m" || changed)
                    continue;
                if (bi < batch.size())
                {
                    tryScalar(sub, "len", static_cast<int64_t>(batch[bi].payload.size()), 1, 65535);
                    if (o.width >= 4)
                        tryScalar(sub, "ifid", static_cast<int64_t>(batch[bi].id32), 0, 0xFFFFFFFFLL);
                    if (o.width == 8)
                        tryScalar(sub, "ts", static_cast<int64_t>(batch[bi].ts), INT64_MIN, INT64_MAX);
                    if (o.width == 1)
                        tryScalar(sub, "flags", batch[bi].flags, 0, 0xBF);
                }
                ++bi;
            }
            if (!changed)
                continue;
            fault("encode-call-derived-from-comparison-operands");
            --encDerivedLeft;
            ++made;
            opEnc(d);
        }
        --encDepth;
    }
}

// ---------------------------------------------------------------------------------------------- raw CMP peer
void World::opRawSeg(const Item& op)
{
    Node& n = nodeOf(op);
    const uint16_t dev = static_cast<uint16_t>(op.has("dev") ? op.get("dev") : n.dev);
    const uint8_t stream = static_cast<uint8_t>(op.has("stream") ? op.get("stream") : n.stream);
    uint8_t ver = static_cast<uint8_t>(op.get("ver", 1));
    if (ver == 0)
        ver = 1;
    uint8_t mtype = static_cast<uint8_t>(op.get("mtype", 1));
    if (mtype == 0)
        mtype = 1;
    uint8_t ptype = static_cast<uint8_t>(op.get("ptype", 0x20));
    if (ptype == 0)
        ptype = 0x20;
    const uint32_t id = static_cast<uint32_t>(op.get("id", 1));
    if (op.has("ctr"))
        n.ctr = static_cast<uint16_t>(op.get("ctr"));
    std::vector<const Item*> segs;
    for (auto& s : op.sub)
        if (s.tag == "s")
            segs.push_back(&s);
    if (segs.empty())
        return;
    std::vector<InFlight> fl;
    ExpPacket whole;
    whole.dev = dev;
    whole.stream = stream;
    whole.version = ver;
    whole.mtype = mtype;
    whole.ptype = ptype;
    whole.ts = static_cast<uint64_t>(op.get("ts", 0));
    whole.id32 = static_cast<uint32_t>(op.get("ifid", 0));
    whole.flags = static_cast<uint8_t>(op.get("flags", 0)) & static_cast<uint8_t>(~(wire::FLAG_ERR_IN_PAYLOAD | wire::SEG_MASK));
    whole.msgId = id;
    uint32_t off = 0;
    size_t total = 0;
    // an honest sender (C05 / C06 traffic) never sends more than 65535 payload bytes in one message; only the hostile
    // families (C02 C17 C18 ...) go beyond, where the outcome is unspecified and only safety is demanded
    const bool honest = is("C05") || is("C06") || is("C01") || is("C16");
    std::vector<size_t> segLen;
    for (auto s : segs)
    {
        size_t l = static_cast<size_t>(std::min<int64_t>(std::max<int64_t>(0, s->get("len", 0)), 65535));
        if (honest && total + l > 65535)
            l = 65535 - total;
        segLen.push_back(l);
        total += l;
    }
    const bool tooLong = total > 65535;
    bool wrapsInside = false;
    for (size_t k = 0; k < segs.size(); ++k)
    {
        const Item& s = *segs[k];
        size_t len = segLen[k];
        size_t trail = static_cast<size_t>(std::min<int64_t>(std::max<int64_t>(0, s.get("trail", 0)), 2000));
        InFlight f;
        // "lead": small well-formed unsegmented messages of the same endpoint travel in FRONT of the segment in its frame
        // (a real encoder never builds such a frame, a third-party one may). Honest senders only do it in the first frame:
        // in a later one the unsegmented message would - correctly - abort the message it travels with.
        size_t nLead = static_cast<size_t>(std::min<int64_t>(std::max<int64_t>(0, s.get("lead", 0)), 3));
        if (honest && k > 0)
            nLead = 0;
        if (segs.size() == 1)
            nLead = 0;
        Bytes leadBytes;
        for (size_t q = 0; q < nLead; ++q)
        {
            ExpPacket lp;
            lp.dev = dev;
            lp.stream = stream;
            lp.version = ver;
            lp.mtype = mtype;
            lp.ptype = 0x20;
            lp.ts = 0x1EAD0000u + q;
            lp.id32 = whole.id32;
            lp.flags = 0;
            lp.msgId = id ^ static_cast<uint32_t>(0x1EAD00 + k * 8 + q);
            lp.payload = contentBytes(lp.msgId, 0, 4 + q * 3);
            lp.validity = wire::classify(mtype, 0x20, lp.payload.data(), lp.payload.size());
            wire::MsgHdr lh;
            lh.ts = lp.ts;
            lh.id32 = lp.id32;
            lh.flags = 0;
            lh.ptype = 0x20;
            lh.plen = static_cast<uint16_t>(lp.payload.size());
            const size_t at = leadBytes.size();
            leadBytes.resize(at + wire::MSG_HDR + lp.payload.size());
            wire::writeMsgHdr(leadBytes.data() + at, lh);
            memcpy(leadBytes.data() + at + wire::MSG_HDR, lp.payload.data(), lp.payload.size());
            f.expect.push_back(lp);
            if (is("C06"))
            {
                Endpoint ep{dev, stream};
                SentMsg sm;
                sm.hash = hashExp(lp);
                sm.ep = ep;
                sentHashes[ep].insert(sm.hash);
                sm.frameIds.push_back(nextFrameId + static_cast<int>(k));
                sent.push_back(sm);
                f.completes.push_back(static_cast<int>(sent.size() - 1));
            }
        }
        if (nLead)
            probe("segment-frame-with-leading-messages");
        f.hasLead = nLead > 0;
        const size_t base = wire::CMP_HDR + leadBytes.size();  // where the segment's message header starts
        f.bytes.assign(base + wire::MSG_HDR + len + trail, 0);
        if (!leadBytes.empty())
            memcpy(f.bytes.data() + wire::CMP_HDR, leadBytes.data(), leadBytes.size());
        wire::CmpHdr h;
        h.version = ver;
        h.dev = dev;
        h.mtype = mtype;
        h.stream = stream;
        h.ctr = n.ctr;
        if (k > 0 && n.ctr == 0)
            wrapsInside = true;
        n.ctr = static_cast<uint16_t>(n.ctr + 1);
        wire::writeCmpHdr(f.bytes.data(), h);
        wire::MsgHdr m;
        uint8_t seg = segs.size() == 1 ? wire::SEG_NONE : (k == 0 ? wire::SEG_FIRST : (k + 1 == segs.size() ? wire::SEG_LAST : wire::SEG_MID));
        if (k == 0)
        {
            m.ts = whole.ts;
            m.id32 = whole.id32;
            m.flags = whole.flags | seg;
            m.ptype = ptype;
        }
        else
        {
            // later segments may carry different header fields: they must not matter
            const int64_t alt = s.get("alt", 0);
            m.ts = whole.ts + static_cast<uint64_t>(alt);
            m.id32 = whole.id32 ^ static_cast<uint32_t>(alt * 0x01010101);
            m.flags = static_cast<uint8_t>(((whole.flags ^ (alt & 0x33)) & ~(wire::FLAG_ERR_IN_PAYLOAD | wire::SEG_MASK)) | seg);
            m.ptype = ptype;
        }
        m.plen = static_cast<uint16_t>(len);
        wire::writeMsgHdr(f.bytes.data() + base, m);
        if (len)
            fillContent(f.bytes.data() + base + wire::MSG_HDR, id, off, len);
        if (trail && s.get("tfill", 0))
            fillContent(f.bytes.data() + base + wire::MSG_HDR + len, id ^ 0x5A5A5A5Au, off, trail);
        if (trail && s.get("tfill", 0) == 2)
        {
            // the bytes behind the segment hold WELL-FORMED unsegmented messages (after tpad filler bytes): they still are
            // not part of anything - a segment is alone in its frame as far as the receiver is concerned
            size_t pos = base + wire::MSG_HDR + len + static_cast<size_t>(std::min<int64_t>(std::max<int64_t>(0, s.get("tpad", 0)), static_cast<int64_t>(trail)));
            uint32_t q = 0;
            while (pos + wire::MSG_HDR + 4 <= f.bytes.size())
            {
                wire::MsgHdr th;
                th.ts = 0xABCD0000u + q;
                th.id32 = 0x77;
                th.flags = 0;
                th.ptype = 0x20;
                th.plen = static_cast<uint16_t>(std::min<size_t>(f.bytes.size() - pos - wire::MSG_HDR, 4 + (q % 3) * 8));
                wire::writeMsgHdr(f.bytes.data() + pos, th);
                pos += wire::MSG_HDR + th.plen;
                ++q;
            }
        }
        off += static_cast<uint32_t>(len);
        f.isSegmentFrame = segs.size() > 1;
        f.expectKnown = !tooLong;
        fl.push_back(std::move(f));
    }
    whole.payload = contentBytes(id, 0, std::min<size_t>(total, 65535));
    whole.validity = wire::classify(mtype, ptype, whole.payload.data(), whole.payload.size());
    if (!tooLong)
        fl.back().expect.push_back(whole);
    if (wrapsInside)
        probe("sender-wraps-counter-inside-message");
    if (segs.size() >= 3)
        probe("three-or-more-segments");
    if (is("C06") && !tooLong)
    {
        Endpoint ep{dev, stream};
        SentMsg sm;
        sm.hash = hashExp(whole);
        sm.ep = ep;
        sentHashes[ep].insert(sm.hash);
        for (size_t k = 0; k < fl.size(); ++k)
            sm.frameIds.push_back(nextFrameId + static_cast<int>(k));
        sent.push_back(sm);
        fl.back().completes.push_back(static_cast<int>(sent.size() - 1));
    }
    emit(op, n, fl);
}

void World::opRaw(const Item& op)
{
    Node& n = nodeOf(op);
    wire::CmpHdr h;
    h.version = static_cast<uint8_t>(op.get("ver", 1));
    if (h.version == 0)
        h.version = 1;
    h.dev = static_cast<uint16_t>(op.has("dev") ? op.get("dev") : n.dev);
    h.stream = static_cast<uint8_t>(op.has("stream") ? op.get("stream") : n.stream);
    h.mtype = static_cast<uint8_t>(op.get("mtype", 1));
    if (h.mtype == 0 && (is("C05") || is("C06") || is("C01") || is("C16")))
        h.mtype = 1;  // honest senders do not use the undefined message type
    if (op.has("ctr"))
        n.ctr = static_cast<uint16_t>(op.get("ctr"));
    h.ctr = n.ctr;
    n.ctr = static_cast<uint16_t>(n.ctr + 1);
    h.reserved = static_cast<uint8_t>(op.get("rsv", 0));
    InFlight f;
    f.bytes.assign(wire::CMP_HDR, 0);
    wire::writeCmpHdr(f.bytes.data(), h);
    Endpoint ep{h.dev, h.stream};
    bool allPlainUnseg = true;
    std::vector<ExpPacket> exps;
    for (auto& m : op.sub)
    {
        if (m.tag != "m")
            continue;
        const int64_t reps = std::min<int64_t>(std::max<int64_t>(1, m.get("rep", 1)), 5000);
        for (int64_t rq = 0; rq < reps; ++rq)
        {
        const int kind = static_cast<int>(m.get("kind", 0));
        const uint32_t id = static_cast<uint32_t>(m.get("id", 1)) + static_cast<uint32_t>(rq);
        size_t len = static_cast<size_t>(std::min<int64_t>(std::max<int64_t>(0, m.get("len", 0)), 65535));
        if (f.bytes.size() + wire::MSG_HDR + len > 400000)
            break;
        Bytes body;
        if (kind == wire::K_CMSTAT && m.get("nonul", 0))
            body = makeCmNoNul(id);
        else if (kind != wire::K_GENERIC && !m.get("rawbody", 0))
            body = makePayload(kind, len, id);
        else
            body = contentBytes(id, static_cast<uint32_t>(m.get("off", 0)), len);
        // generic byte pokes inside the payload (deliberately inconsistent inner fields)
        if (m.has("p1o") && !body.empty())
            body[static_cast<size_t>(std::max<int64_t>(0, m.get("p1o"))) % body.size()] = static_cast<uint8_t>(m.get("p1v"));
        if (m.has("p2o") && !body.empty())
            body[static_cast<size_t>(std::max<int64_t>(0, m.get("p2o"))) % body.size()] = static_cast<uint8_t>(m.get("p2v"));
        if (m.has("ilen"))
        {
            size_t off;
            int width;
            if (innerLenField(kind, body.data(), body.size(), static_cast<int>(m.get("iwhich", 0)), off, width) && off + width <= body.size())
            {
                if (width == 1)
                    body[off] = static_cast<uint8_t>(m.get("ilen"));
                else
                    wire::wr16(body.data() + off, static_cast<uint16_t>(m.get("ilen")));
                for (int64_t z = 0; z < m.get("izero", 0) && off + width + static_cast<size_t>(z) < body.size(); ++z)
                    body[off + width + static_cast<size_t>(z)] = 0;
            }
        }
        if (m.has("ilen2"))
        {
            size_t off;
            int width;
            if (innerLenField(kind, body.data(), body.size(), static_cast<int>(m.get("iwhich2", 1)), off, width) && off + width <= body.size())
            {
                if (width == 1)
                    body[off] = static_cast<uint8_t>(m.get("ilen2"));
                else
                    wire::wr16(body.data() + off, static_cast<uint16_t>(m.get("ilen2")));
            }
        }
        wire::MsgHdr mh;
        mh.ts = static_cast<uint64_t>(m.get("ts", 0));
        mh.id32 = static_cast<uint32_t>(m.get("ifid", 0));
        mh.flags = static_cast<uint8_t>(m.get("flags", 0));
        mh.flags = static_cast<uint8_t>((mh.flags & ~wire::SEG_MASK) | ((m.get("seg", 0) & 3) << 2));
        mh.ptype = static_cast<uint8_t>(m.has("ptype") ? m.get("ptype") : defaultPtype(kind));
        mh.plen = static_cast<uint16_t>(m.has("decl") ? m.get("decl") : static_cast<int64_t>(body.size()));
        const size_t at = f.bytes.size();
        f.bytes.resize(at + wire::MSG_HDR + body.size());
        wire::writeMsgHdr(f.bytes.data() + at, mh);
        if (!body.empty())
            memcpy(f.bytes.data() + at + wire::MSG_HDR, body.data(), body.size());
        if (mh.seg() != wire::SEG_NONE || m.has("decl") || (mh.flags & wire::FLAG_ERR_IN_PAYLOAD) || mh.ptype == 0)
            allPlainUnseg = false;
        else
        {
            ExpPacket e;
            e.dev = h.dev;
            e.stream = h.stream;
            e.version = h.version;
            e.mtype = h.mtype;
            e.ptype = mh.ptype;
            e.ts = mh.ts;
            e.id32 = mh.id32;
            e.flags = mh.flags;
            e.payload = body;
            e.validity = wire::classify(h.mtype, mh.ptype, body.data(), body.size());
            e.msgId = id;
            exps.push_back(std::move(e));
        }
        }
    }
    size_t trail = static_cast<size_t>(std::min<int64_t>(std::max<int64_t>(0, op.get("trail", 0)), 4096));
    if (trail)
    {
        size_t at = f.bytes.size();
        f.bytes.resize(at + trail, 0);
        if (op.get("tfill", 0))
            fillContent(f.bytes.data() + at, static_cast<uint32_t>(op.get("tfill")), 0, trail);
    }
    if (op.has("slo") && !is("C05") && !is("C06") && !is("C01") && !is("C16") && f.bytes.size() >= wire::CMP_HDR + wire::MSG_HDR + 2)
    {
        // self-referential length: a 16-bit value derived from the size of this very frame (size - delta) inside the FIRST
        // message's payload - what a parser that mistakes the frame for another protocol, or a payload field for a length,
        // would be looking for. The frame stays well-formed; what the payload then means is the model's business.
        const size_t firstLen = wire::rd16(f.bytes.data() + wire::CMP_HDR + 14);
        const size_t slo = static_cast<size_t>(std::max<int64_t>(0, op.get("slo")));
        if (slo + 2 <= firstLen && wire::CMP_HDR + wire::MSG_HDR + slo + 2 <= f.bytes.size())
        {
            wire::wr16(f.bytes.data() + wire::CMP_HDR + wire::MSG_HDR + slo,
                       static_cast<uint16_t>(static_cast<int64_t>(f.bytes.size()) - op.get("sld", 0)));
            allPlainUnseg = false;  // (the end-to-end expectation was built from the unpoked bytes)
            fault("self-referential-length");
        }
    }
    if (is("C06") && allPlainUnseg)
    {
        for (auto& e : exps)
        {
            if (e.validity != wire::MUST_VALID)
                continue;
            SentMsg sm;
            sm.hash = hashExp(e);
            sm.ep = ep;
            sentHashes[ep].insert(sm.hash);
            sm.frameIds.push_back(nextFrameId);
            sent.push_back(sm);
            f.completes.push_back(static_cast<int>(sent.size() - 1));
        }
    }
    if (allPlainUnseg && !trail)
    {
        f.expectKnown = true;
        f.expect = exps;
    }
    std::vector<InFlight> fl;
    fl.push_back(std::move(f));
    emit(op, n, fl);
}

// ---------------------------------------------------------------------------------------------- TECMP peer
void World::opTecmp(const Item& op)
{
    Node& n = nodeOf(op);
    wire::TecmpHdr h;
    h.dev = static_cast<uint16_t>(op.get("dev", n.dev) & 0xFF);  // high byte 0 marks TECMP
    h.ctr = static_cast<uint16_t>(op.get("ctr", 0));
    h.version = static_cast<uint8_t>(op.get("ver", 3));
    h.mtype = static_cast<uint8_t>(op.get("mtype", 3));
    h.dtype = static_cast<uint16_t>(op.get("dtype", 2));
    h.reserved = static_cast<uint16_t>(op.get("rsv", 0));
    h.devFlags = static_cast<uint16_t>(op.get("dflags", 0));
    h.ifid = static_cast<uint32_t>(op.get("ifid", 0));
    h.ts = static_cast<uint64_t>(op.get("ts", 0));
    h.dataFlags = static_cast<uint16_t>(op.get("xflags", 0));
    const int kind = static_cast<int>(op.get("kind", 0));
    const uint32_t id = static_cast<uint32_t>(op.get("id", 1));
    size_t nn = static_cast<size_t>(std::min<int64_t>(std::max<int64_t>(0, op.get("n", 0)), 3000));
    Bytes body;
    switch (kind)
    {
        case 1:  // CAN / CAN-FD: id, length, data, optional crc bytes
        {
            nn = std::min<size_t>(nn, 255);
            size_t crc = static_cast<size_t>(std::min<int64_t>(std::max<int64_t>(0, op.get("crc", 0)), 8));
            body = contentBytes(id, 0, 5 + nn + crc);
            body[4] = static_cast<uint8_t>(nn);
            break;
        }
        case 2:  // LIN: pid, length, data, checksum
        {
            nn = std::min<size_t>(nn, 255);
            size_t cs = op.get("cs", 1) ? 1 : 0;
            body = contentBytes(id, 0, 2 + nn + cs);
            body[1] = static_cast<uint8_t>(nn);
            break;
        }
        case 3:  // capture-module status: 36 fixed bytes + n extra
            body = contentBytes(id, 0, wire::TECMP_CM_FIXED + nn);
            wire::wr16(body.data() + 4, static_cast<uint16_t>(24 + nn));
            {
                // one serial number in four sits on a DECIMAL or binary boundary (it is rendered as a decimal string): 10^k and
                // 2^k minus / plus a little, 0, all ones
                const uint64_t sr = mix64(id * 0x9E3779B97F4A7C15ULL + 31337);
                if ((sr & 3) == 0 && body.size() >= 12)
                {
                    uint64_t v;
                    if ((sr >> 2) & 1)
                    {
                        v = 1;
                        for (unsigned k = 0; k < 1 + (sr >> 8) % 9; ++k)
                            v *= 10;
                    }
                    else
                        v = 1ULL << (1 + (sr >> 8) % 32);
                    const int64_t d = static_cast<int64_t>((sr >> 16) % 41) - 36;  // -36 .. +4
                    int64_t w = static_cast<int64_t>(v) + d;
                    if (w < 0)
                        w = 0;
                    if (w > 0xFFFFFFFFLL)
                        w = 0xFFFFFFFFLL;
                    wire::wr32(body.data() + 8, static_cast<uint32_t>(w));
                }
            }
            break;
        case 4:  // bus status: 12 generic bytes + n entries (the device id inside is the header's own in half of the frames, as in real traffic)
            nn = std::min<size_t>(nn, 200);
            body = contentBytes(id, 0, wire::TECMP_BUS_GENERIC + nn * wire::TECMP_BUS_ENTRY);
            if ((mix64(id * 31ULL + 9) & 1) && body.size() >= 8)
                wire::wr16(body.data() + 6, static_cast<uint16_t>(op.get("dev", 0)));
            if (op.has("eidv") && nn)
            {
                // extreme but legal values in one entry (or all): interface id 0 / all ones / the header's own id, counters 0 / all ones
                const size_t first = op.get("eidall", 0) ? 0 : static_cast<size_t>(std::max<int64_t>(0, op.get("eidk", 0))) % nn;
                const size_t last = op.get("eidall", 0) ? nn - 1 : first;
                for (size_t e = first; e <= last; ++e)
                {
                    uint8_t* ent = body.data() + wire::TECMP_BUS_GENERIC + e * wire::TECMP_BUS_ENTRY;
                    const int64_t sel = op.get("eidv");
                    const uint32_t idv = (sel & 3) == 0 ? 0u : (sel & 3) == 1 ? 0xFFFFFFFFu : (sel & 3) == 2 ? static_cast<uint32_t>(op.get("ifid", 0)) : 1u;
                    wire::wr32(ent, idv);
                    if (sel & 4)
                        wire::wr32(ent + 4, (sel & 8) ? 0xFFFFFFFFu : 0u);
                    if (sel & 16)
                        wire::wr32(ent + 8, (sel & 32) ? 0xFFFFFFFFu : 0u);
                }
            }
            break;
        default:  // arbitrary bytes
            body = contentBytes(id, 0, nn);
            break;
    }
    if (op.has("ilen") && body.size() > 4)
    {
        if (kind == 2)
            body[1] = static_cast<uint8_t>(op.get("ilen"));
        else
            body[4] = static_cast<uint8_t>(op.get("ilen"));
    }
    static const char* const pokeKeys[2][3] = {{"p1o", "p1v", "p1x"}, {"p2o", "p2v", "p2x"}};
    for (auto& pk : pokeKeys)
    {
        if (!op.has(pk[0]) || body.empty())
            continue;
        uint8_t& byte = body[static_cast<size_t>(std::max<int64_t>(0, op.get(pk[0]))) % body.size()];
        if (op.has(pk[2]))
            byte ^= static_cast<uint8_t>(op.get(pk[2]));
        else
            byte = static_cast<uint8_t>(op.get(pk[1]));
    }
    if (op.has("cut"))
        body.resize(std::min<size_t>(body.size(), static_cast<size_t>(std::max<int64_t>(0, op.get("cut")))));
    h.plen = static_cast<uint16_t>(op.has("plen") ? op.get("plen") : static_cast<int64_t>(body.size()));
    InFlight f;
    f.bytes.assign(wire::TECMP_HDR + body.size(), 0);
    wire::writeTecmpHdr(f.bytes.data(), h);
    if (!body.empty())
        memcpy(f.bytes.data() + wire::TECMP_HDR, body.data(), body.size());
    size_t trail = static_cast<size_t>(std::min<int64_t>(std::max<int64_t>(0, op.get("trail", 0)), 512));
    if (trail)
        f.bytes.resize(f.bytes.size() + trail, 0);
    std::vector<InFlight> fl;
    fl.push_back(std::move(f));
    emit(op, n, fl);
}

}  // namespace sim
