// isolate.h -- run one plan in a forked child so that crashes, sanitizer reports and hangs
// become outcomes; and plan minimisation on top of it.
#pragma once
#include <string>

#include "plan.h"
#include "world.h"

namespace sim
{

struct Outcome
{
    std::string sig;     // "" = no violation; else "<prop> <rule>"
    std::string detail;
    uint64_t eventHash{0};
    bool crashed{false};
    int violations{0};
};

// executes in a forked child; classifies crashes from exit status and the child's stderr
Outcome runIsolated(const Plan& plan, int timeoutSec = 60);
// the same, returning the whole RunResult (probes, hashes, counters); a crash becomes a violation of the plan's property
RunResult runForkedFull(const Plan& plan, int timeoutSec = 120);

struct ShrinkStats
{
    int executions{0};
    size_t opsBefore{0}, opsAfter{0};
};
// greedy + ddmin over plan items, then argument shrinking; keeps a candidate only if it fails with the same signature
Plan shrinkPlan(const Plan& plan, const std::string& sig, int budget, ShrinkStats& st);

size_t countOps(const Plan& p);

}  // namespace sim
