// gen2.cpp -- plan generators for the receiver-side families:
// C06 (faulty streams), C02/C17/C18 (hostile histories), C04 (foreign peer frames)
#include "gen_common.h"

namespace sim
{

void addFault(Item& op, int type, int64_t frame, int64_t a, int64_t b, int64_t c)
{
    Item f("f");
    f.set("type", type).set("frame", frame);
    if (a)
        f.set("a", a);
    if (b)
        f.set("b", b);
    if (c)
        f.set("c", c);
    op.sub.push_back(std::move(f));
}

// one well-formed traffic op of a node (used by several families). Returns estimated frames.
int64_t addTrafficOp(Gen& g, int node, int nodeType, bool allowSeg, int maxSeg)
{
    Rng& r = g.rng;
    if (nodeType == 1)
    {
        int64_t maxB = r.pick<int64_t>({25, 40, 64, 100, 100, 300, 1500});
        int64_t minB = r.chance(1, 2) ? 0 : r.range(0, maxB);
        size_t nMsg = 1 + r.below(5);
        std::vector<Item> msgs;
        int64_t est = 1;
        for (size_t k = 0; k < nMsg; ++k)
        {
            Item m("m");
            g.fillMsg(m, {wire::K_GENERIC, wire::K_ETH, wire::K_CAN, wire::K_CANFD, wire::K_LIN, wire::K_ANALOG}, maxB, -1, allowSeg ? maxSeg : 1);
            if (!allowSeg && m.get("len") > maxB - 24)
                m.set("len", std::max<int64_t>(1, maxB - 24 - r.range(0, 3))).set("kind", 0);
            est += m.get("len") / std::max<int64_t>(1, maxB - 24) + 1;
            msgs.push_back(std::move(m));
        }
        Item& op = g.addOp(OP_ENC, node, est);
        op.set("min", minB).set("max", maxB).set("ver", r.chance(2, 3) ? 1 : r.range(1, 255)).set("mode", static_cast<int64_t>(r.below(4)));
        op.sub = std::move(msgs);
        return est;
    }
    if (allowSeg && r.chance(1, 2))
    {
        int nseg = static_cast<int>(r.chance(1, 2) ? r.range(2, 4) : r.range(2, maxSeg));
        std::vector<Item> segs;
        for (int k = 0; k < nseg; ++k)
        {
            Item s("s");
            s.set("len", r.chance(1, 8) ? 0 : r.range(1, 60));
            if (r.chance(1, 6))
                s.set("trail", r.range(1, 40)).set("tfill", static_cast<int64_t>(r.below(2)));
            else if (r.chance(1, 12))
                s.set("trail", r.range(30, 200)).set("tfill", 2).set("tpad", r.range(0, 80));  // well-formed messages behind the segment
            if (r.chance(1, 10))
                s.set("lead", r.range(1, 3));  // unsegmented messages in front of the segment, in its frame (honest senders: first frame only)
            segs.push_back(std::move(s));
        }
        Item& op = g.addOp(OP_RAWSEG, node, nseg);
        op.set("ver", r.chance(2, 3) ? 1 : r.range(1, 255));
        op.set("mtype", r.pick<int64_t>({1, 1, 1, 3, 2, 0xFF})).set("ptype", r.pick<int64_t>({0x20, 4, 9, 0xFF}));
        op.set("id", g.msgId()).set("ts", static_cast<int64_t>(g.pickTs())).set("ifid", static_cast<int64_t>(r.next() & 0xFFFFFFFF));
        op.set("flags", g.pickFlags());
        op.sub = std::move(segs);
        return nseg;
    }
    Item& op = g.addOp(OP_RAW, node, 1);
    op.set("ver", r.chance(2, 3) ? 1 : r.range(1, 255));
    const int64_t mt = r.pick<int64_t>({1, 1, 1, 3, 2, 0xFF});
    op.set("mtype", mt);
    size_t nm = 1 + r.below(4);
    for (size_t k = 0; k < nm; ++k)
    {
        Item m("m");
        int kind = 0;
        if (mt == 1)
            kind = r.pick<int>({0, wire::K_CAN, wire::K_CANFD, wire::K_LIN, wire::K_ANALOG, wire::K_ETH});
        else if (mt == 3)
            kind = r.pick<int>({wire::K_CMSTAT, wire::K_IFSTAT});
        m.set("kind", kind);
        if (kind == 0)
            m.set("ptype", mt == 3 ? r.pick<int64_t>({3, 4, 0xFF}) : r.pick<int64_t>({0x20, 4, 9, 0xFF}));
        m.set("len", static_cast<int64_t>(minLenOf(kind)) + r.range(0, 60)).set("id", g.msgId());
        m.set("ts", static_cast<int64_t>(g.pickTs())).set("ifid", static_cast<int64_t>(r.below(100000))).set("flags", g.pickFlags());
        op.sub.push_back(std::move(m));
    }
    return 1;
}

// ---------------------------------------------------------------------------------------------- C06
Plan genFaulty(const std::string& prop, int tier, uint64_t batchSeed, uint64_t idx)
{
    // thorough: odd indices form the systematic sweep (every single fault / pair of faults at every position of a base stream)
    const bool sweep = tier == 1 && (idx & 1);
    const uint64_t SW = 8192;
    const uint64_t streamIdx = sweep ? (idx / 2) / SW + 0x5EED0000 : idx;
    const uint64_t j = sweep ? (idx / 2) % SW : 0;
    Gen g(prop, tier, batchSeed, streamIdx);
    Rng& r = g.rng;
    g.cfg().set("rx", 1).set("sweep", sweep ? 1 : 0);
    // one random run in ten: a long stream of one endpoint that loses a BURST of consecutive frames whose length sits on
    // an 8/9-bit boundary (254..258, 511..513): counters and segment indexes that alias modulo 256 must not be accepted
    const bool burst = !sweep && r.chance(1, 10);
    // one random run in twelve: a CROWD - 64..150 endpoints that are all in the middle of a message at the same time when
    // the faults hit (pending tables beyond any small bound: caps, evictions and rehashes happen there), then a second
    // wave of messages that must come through
    const bool crowd = !sweep && !burst && r.chance(1, 12);
    const size_t nNodes = crowd ? 64 + r.below(87) : burst ? 1 : (sweep ? 1 + r.below(2) : 1 + r.below(3));
    auto eps = g.pickEndpoints(nNodes);
    std::vector<int> nodeType(nNodes);
    for (size_t i = 0; i < nNodes; ++i)
    {
        nodeType[i] = r.chance(1, 2) ? 1 : 2;
        Item& n = g.addNode(static_cast<int>(i + 1), nodeType[i], eps[i].first, eps[i].second);
        if (nodeType[i] == 2)
            n.set("ctr0", r.chance(1, 3) ? (r.pick<int64_t>({0x10000, 0x8000, 0x100}) - 1 - static_cast<int64_t>(r.below(30))) : static_cast<int64_t>(r.below(65536)));
        n.set("gap", r.pick<int64_t>({1, 2, 5, 10}));
    }
    const size_t nOps = burst ? 120 + r.below(160) : (sweep ? 4 + r.below(5) : 3 + r.below(tier ? 30 : 14));
    struct OpRef
    {
        size_t item;
        int64_t frames;
        bool seg;
    };
    std::vector<OpRef> ops;
    if (burst)
        nodeType[0] = 2;
    for (auto& it : g.plan.items)
        if (burst && it.tag == "node")
            it.set("type", 2).set("gap", 1).set("ctr0", static_cast<int64_t>(r.below(65536)));
    const int burstSegs = static_cast<int>(r.range(2, 4));
    if (crowd)
    {
        for (auto& it : g.plan.items)
            if (it.tag == "node")
                it.set("type", 2).set("gap", 30000 + static_cast<int64_t>(r.below(20000))).set("ctr0", static_cast<int64_t>(r.below(65536)));
        for (size_t i = 0; i < nNodes; ++i)
            nodeType[i] = 2;
        g.cfg().set("crowd", static_cast<int64_t>(nNodes));
        // wave 1: every endpoint opens a message of 2-3 segments; all first segments are out before the first second one
        std::vector<size_t> wave1;
        for (size_t i = 0; i < nNodes; ++i)
        {
            const int ns = static_cast<int>(r.range(2, 3));
            Item& op = g.addOp(OP_RAWSEG, static_cast<int>(i + 1), ns);
            op.set("ver", 1).set("mtype", 1).set("ptype", 0x20).set("id", g.msgId()).set("ts", static_cast<int64_t>(g.pickTs())).set("ifid", static_cast<int64_t>(r.below(1000)));
            for (int k = 0; k < ns; ++k)
            {
                Item sgm("s");
                sgm.set("len", r.range(0, 24));
                op.sub.push_back(sgm);
            }
            wave1.push_back(g.plan.items.size() - 1);
            ops.push_back(OpRef{g.plan.items.size() - 1, ns, true});
        }
        // the faults sit where they leave state behind: duplicated first segments, lost tails, a late stale copy
        const size_t nHit = 1 + r.below(6);
        for (size_t k = 0; k < nHit; ++k)
        {
            Item& op = g.plan.items[wave1[r.below(wave1.size())]];
            switch (r.below(4))
            {
                case 0:
                    addFault(op, F_DUP, 0, r.pick<int64_t>({0, 1, 40000, 90000}));
                    break;
                case 1:
                    addFault(op, F_DROP, static_cast<int64_t>(op.sub.size()) - 1);
                    break;
                case 2:
                    addFault(op, F_DROP, 1);
                    break;
                default:
                    addFault(op, F_DELAY, static_cast<int64_t>(r.below(3)), r.pick<int64_t>({1, 30001, 70000}));
                    break;
            }
        }
        g.clock += 200000;
    }
    const size_t nLoopOps = crowd ? nNodes / 2 + r.below(nNodes) : nOps;
    for (size_t o = 0; o < nLoopOps; ++o)
    {
        int ni = static_cast<int>(r.below(nNodes));
        int64_t est = addTrafficOp(g, ni + 1, nodeType[ni], true, burst ? burstSegs : (sweep ? 4 : 12));
        ops.push_back(OpRef{g.plan.items.size() - 1, est, est > 1});
    }
    auto faultAt = [&](int kind, int64_t pos, uint64_t salt)
    {
        // pos addresses a frame in the flattened (estimated) frame list
        int64_t acc = 0;
        for (auto& o : ops)
        {
            if (pos < acc + o.frames || &o == &ops.back())
            {
                Item& op = g.plan.items[o.item];
                int64_t fr = std::max<int64_t>(0, pos - acc);
                const int64_t gap = g.nodeGap(static_cast<int>(op.get("node")));
                switch (kind)
                {
                    case 0:
                        addFault(op, F_DROP, fr);
                        break;
                    case 1:
                        // the copy arrives back to back, one or two frames later, or after the message (and the next one) has gone by
                        addFault(op, F_DUP, fr, (salt % 5 == 0) ? 0 : (salt % 5 == 1 ? gap : (salt % 5 == 2 ? gap * 2 + 1 : gap * static_cast<int64_t>(3 + (salt >> 8) % 12) + 1)));
                        break;
                    case 2:
                        addFault(op, F_DELAY, fr, gap + 1 + static_cast<int64_t>(salt % 3) * gap);  // swap with a neighbour
                        break;
                    case 3:
                        addFault(op, F_DELAY, fr, 30 + static_cast<int64_t>(salt % 400));
                        break;
                    case 4:
                    {
                        bool has = false;
                        for (auto& s : op.sub)
                            if (s.tag == "f" && (s.get("type") == F_CORRUPT_VER || s.get("type") == F_CORRUPT_TYPE))
                                has = true;
                        if (!has)
                            addFault(op, F_CORRUPT_VER, fr, 1 + static_cast<int64_t>(salt % 255));
                        break;
                    }
                    case 5:
                    {
                        bool has = false;
                        for (auto& s : op.sub)
                            if (s.tag == "f" && (s.get("type") == F_CORRUPT_VER || s.get("type") == F_CORRUPT_TYPE))
                                has = true;
                        if (!has)
                            addFault(op, F_CORRUPT_TYPE, fr, static_cast<int64_t>(salt % 3 == 0 ? 3 : (salt % 3 == 1 ? 0xFF : 2)));
                        break;
                    }
                    default:
                        addFault(op, F_DUP, fr, 500 + static_cast<int64_t>(salt % 3000));  // stale replay
                        break;
                }
                return;
            }
            acc += o.frames;
        }
    };
    int64_t totalFrames = 0;
    for (auto& o : ops)
        totalFrames += o.frames;
    if (burst)
    {
        const int64_t len = r.pick<int64_t>({254, 255, 256, 256, 256, 257, 258, 511, 512, 512, 513});
        const int64_t start = static_cast<int64_t>(r.below(static_cast<uint64_t>(std::max<int64_t>(1, totalFrames - len - 3))));
        int64_t acc = 0;
        for (auto& o : ops)
        {
            Item& op = g.plan.items[o.item];
            for (int64_t f = 0; f < o.frames; ++f)
                if (acc + f >= start && acc + f < start + len)
                    addFault(op, F_PARTITION, f);
            acc += o.frames;
        }
        g.cfg().set("burst", len);
    }
    else if (sweep)
    {
        const int kind1 = static_cast<int>(j % 7);
        const int64_t pos1 = static_cast<int64_t>((j / 7) % 24);
        faultAt(kind1, pos1 % std::max<int64_t>(1, totalFrames), j);
        if (j >= 168)
        {
            const int kind2 = static_cast<int>((j / 168) % 7);
            const int64_t d = 1 + static_cast<int64_t>((j / 1176) % 7);
            faultAt(kind2, (pos1 + d) % std::max<int64_t>(1, totalFrames), j * 31 + 7);
        }
    }
    else
    {
        size_t nf = r.below(7);
        if (r.chance(1, 10))
            nf += 6;
        for (size_t k = 0; k < nf; ++k)
            faultAt(static_cast<int>(r.below(7)), static_cast<int64_t>(r.below(static_cast<uint64_t>(std::max<int64_t>(1, totalFrames)))), r.next());
        if (r.chance(1, 6) && !ops.empty())
        {
            // partition: an endpoint loses every frame in an interval of ops, then heals
            size_t a = r.below(ops.size()), len = 1 + r.below(3);
            int node = static_cast<int>(g.plan.items[ops[a].item].get("node"));
            for (size_t k = a; k < ops.size() && k < a + len; ++k)
            {
                Item& op = g.plan.items[ops[k].item];
                if (op.get("node") != node)
                    continue;
                for (int64_t fr = 0; fr < ops[k].frames + 2; ++fr)
                    addFault(op, F_PARTITION, fr);
            }
        }
    }
    return g.finish();
}

// ---------------------------------------------------------------------------------------------- C02 C17 C18
void addTransitFault(Gen& g, Item& op, int64_t frames)
{
    Rng& r = g.rng;
    const int64_t fr = static_cast<int64_t>(r.below(static_cast<uint64_t>(std::max<int64_t>(1, frames))));
    switch (r.below(12))
    {
        case 0:
            addFault(op, F_DROP, fr);
            break;
        case 1:
            addFault(op, F_DUP, fr, r.pick<int64_t>({0, 1, 7, 600}));
            break;
        case 2:
            addFault(op, F_DELAY, fr, r.range(1, 60));
            break;
        case 3:
            addFault(op, F_TRUNC, fr, r.chance(1, 2) ? r.range(0, 40) : r.range(0, 400));
            break;
        case 4:
            addFault(op, F_PAD, fr, r.pick<int64_t>({1, 8, 15, 16, 17, 46, 100}), r.chance(1, 2) ? 0 : static_cast<int64_t>(1 + r.below(1000)));
            break;
        case 5:
            addFault(op, F_FLIP, fr, r.chance(1, 2) ? r.range(0, 40) : r.range(0, 2000), 1LL << r.below(8));
            break;
        case 6:
        case 7:
        {
            const int64_t fld = r.pick<int64_t>({FLD_MSG_PLEN, FLD_MSG_PLEN, FLD_MSG_PTYPE, FLD_MSG_FLAGS, FLD_INNER_LEN, FLD_INNER_LEN, FLD_INNER_LEN2,
                                                 FLD_VERSION, FLD_MTYPE, FLD_CTR, FLD_DEVICE, FLD_STREAM});
            int64_t val;
            if (fld == FLD_MSG_FLAGS)
                val = r.pick<int64_t>({0x04, 0x08, 0x0C, 0x40, 0x44, 0x4C, 0xFF, 0});
            else if (fld == FLD_DEVICE || fld == FLD_STREAM)
                val = r.range(0, 3);
            else
                val = r.pick<int64_t>({0, 1, 2, 7, 8, 15, 16, 17, 0x7F, 0x80, 0xFF, 0x100, 0x7FFF, 0x8000, 0xFFFE, 0xFFFF, static_cast<int64_t>(r.below(65536))});
            if (fld == FLD_INNER_LEN2)
                val |= static_cast<int64_t>(r.below(4)) << 16;
            addFault(op, F_SETFIELD, fr, fld, static_cast<int64_t>(r.below(4)), val);
            if ((fld == FLD_MSG_PLEN || fld == FLD_INNER_LEN || fld == FLD_INNER_LEN2) && r.chance(1, 2))
            {
                // relative to what is really left behind the field (resolved on the actual bytes): n-4 .. n+4
                Item& f = op.sub.back();
                int64_t delta = r.range(-4, 4);
                f.set("c", fld == FLD_INNER_LEN2 ? ((delta & 0xFFFF) | (static_cast<int64_t>(r.below(4)) << 16)) : (delta & 0xFFFF)).set("rel", 1);
            }
            break;
        }
        case 8:
            addFault(op, F_SPLICE, fr, static_cast<int64_t>(r.below(64)), r.range(0, 80));
            break;
        case 9:
            addFault(op, F_CORRUPT_VER, fr, r.range(1, 255));
            break;
        case 10:
            addFault(op, F_CORRUPT_TYPE, fr, r.pick<int64_t>({0, 1, 2, 3, 0xFF}));
            break;
        default:
            if (r.chance(1, 2))
                addFault(op, F_SETFIELD, fr, FLD_MSG_PLEN, 0, r.range(0, 200));
            else
            {
                // a frame of a live endpoint whose version byte became 0 (routed to the TECMP decoder), possibly cut below
                // the TECMP header size: it must not be parsed as a capture-module frame of that endpoint
                addFault(op, F_SETFIELD, fr, FLD_VERSION, 0, 0);
                if (r.chance(2, 3))
                    addFault(op, F_TRUNC, fr, r.range(8, 40));
            }
            break;
    }
}

void addTecmpOp(Gen& g, int node, bool faulty)
{
    Rng& r = g.rng;
    Item& op = g.addOp(OP_TECMP, node, 1);
    const int kind = static_cast<int>(r.below(5));
    op.set("kind", kind).set("id", g.msgId());
    op.set("dev", static_cast<int64_t>(r.below(4))).set("ctr", static_cast<int64_t>(r.below(65536))).set("ver", r.pick<int64_t>({2, 3}));
    op.set("ifid", r.chance(1, 6) ? r.pick<int64_t>({0, 1, 0xFFFFFFFF, 0x80000000, 0x7FFFFFFF}) : static_cast<int64_t>(r.below(50))).set("ts", static_cast<int64_t>(g.pickTs()));
    if (r.chance(1, 2))
        op.set("xflags", r.chance(1, 2) ? (1LL << r.below(16)) : static_cast<int64_t>(r.below(65536))).set("dflags", static_cast<int64_t>(r.below(65536)));
    switch (kind)
    {
        case 1:
            op.set("mtype", 3).set("dtype", r.pick<int64_t>({2, 3}));
            op.set("n", r.pick<int64_t>({0, 1, 8, 8, 12, 16, 64, static_cast<int64_t>(r.below(65))})).set("crc", r.pick<int64_t>({0, 0, 2, 3, 4}));
            break;
        case 2:
            op.set("mtype", 3).set("dtype", 4).set("n", static_cast<int64_t>(r.below(9))).set("cs", r.chance(3, 4) ? 1 : 0);
            break;
        case 3:
            op.set("mtype", 1).set("dtype", 0).set("n", r.pick<int64_t>({0, 0, 10, 40}));
            break;
        case 4:
            op.set("mtype", 2).set("dtype", 0).set("n", static_cast<int64_t>(r.below(41)));
            if (r.chance(1, 3))
            {
                op.set("eidv", static_cast<int64_t>(r.below(64))).set("eidk", static_cast<int64_t>(r.below(41)));
                if (r.chance(1, 4))
                    op.set("eidall", 1);
            }
            break;
        default:
            op.set("mtype", static_cast<int64_t>(r.below(256))).set("dtype", r.pick<int64_t>({0, 1, 2, 3, 4, 5, 8, 0x10, 0x20, 0x80, 0xFF, 0xFF00, static_cast<int64_t>(r.below(65536))}));
            op.set("n", static_cast<int64_t>(r.below(80)));
            break;
    }
    if (faulty)
    {
        switch (r.below(6))
        {
            case 0:
                op.set("ilen", r.pick<int64_t>({0, 1, 8, 9, 63, 64, 65, 0x7F, 0x80, 0xFF, static_cast<int64_t>(r.below(256))}));
                break;
            case 1:
                op.set("plen", r.pick<int64_t>({0, 1, 4, 5, 11, 12, 13, 35, 36, 0x7FFF, 0xFFFF, static_cast<int64_t>(r.below(300))}));
                break;
            case 2:
                op.set("cut", static_cast<int64_t>(r.below(40)));
                break;
            case 3:
                op.set("trail", r.range(1, 40));
                break;
            case 4:
                op.set("cut", static_cast<int64_t>(r.below(40))).set("plen", static_cast<int64_t>(r.below(40)));
                break;
            default:
                addFault(op, F_TRUNC, 0, r.range(0, 60));
                break;
        }
    }
}

Plan genHostile(const std::string& prop, int tier, uint64_t batchSeed, uint64_t idx)
{
    Gen g(prop, tier, batchSeed, idx);
    Rng& r = g.rng;
    const bool c02 = prop == "C02", c17 = prop == "C17";
    g.cfg().set("rx", 1).set("tail", c17 ? 1 : 0).set("nullbuf", c02 ? 1 : 0);
    const bool manyEndpoints = !c02 && r.chance(1, 10);  // beyond the tiny alphabets: table growth and rehashing
    const size_t nNodes = manyEndpoints ? 8 + r.below(20) : 2 + r.below(c02 ? 3 : 5);
    // tiny alphabets so that collisions of one coordinate are the norm
    std::vector<std::pair<int, int>> eps;
    {
        const int devs[3] = {static_cast<int>(r.pick<int64_t>({1, 0, 0x0100})), static_cast<int>(r.pick<int64_t>({2, 0xFFFF, 0x0101})), 3};
        const int strs[3] = {static_cast<int>(r.pick<int64_t>({0, 1})), static_cast<int>(r.pick<int64_t>({2, 0xFF})), 3};
        std::set<std::pair<int, int>> s;
        const bool crowd = manyEndpoints || r.chance(1, 6);  // one device with random streams: keys colliding in one coordinate and in hash buckets
        while (s.size() < nNodes)
            s.insert({devs[crowd && !manyEndpoints ? 0 : r.below(3)], crowd ? static_cast<int>(r.below(256)) : strs[r.below(3)]});
        eps.assign(s.begin(), s.end());
    }
    std::vector<int> nodeType(nNodes);
    for (size_t i = 0; i < nNodes; ++i)
    {
        nodeType[i] = r.chance(1, 4) ? 1 : 2;
        Item& n = g.addNode(static_cast<int>(i + 1), nodeType[i], eps[i].first, eps[i].second);
        if (nodeType[i] == 2)
            n.set("ctr0", r.chance(1, 4) ? r.range(65500, 65535) : static_cast<int64_t>(r.below(65536)));
    }
    const int tecmpNode = static_cast<int>(nNodes + 1), noiseNode = static_cast<int>(nNodes + 2);
    g.addNode(tecmpNode, 3, 0, 0);
    g.addNode(noiseNode, 4, 0, 0);
    if (c02 && r.chance(tier ? 3 : 1, 8))
    {
        // systematic part: one base frame, delivered again and again with EVERY truncation length and with every
        // boundary value of every length / type / flag field, on a fresh decoder or on one with a seeded history
        const bool freshEach = r.chance(1, 2);
        const size_t nHist = freshEach ? 0 : r.below(12);
        for (size_t k = 0; k < nHist; ++k)
            addTrafficOp(g, static_cast<int>(1 + r.below(nNodes)), nodeType[r.below(nNodes)] == 1 ? 2 : 2, true, 4);
        const bool tecmpBase = r.chance(1, 3);
        int64_t est;
        if (tecmpBase)
        {
            addTecmpOp(g, tecmpNode, false);
            est = 28 + 5 + g.plan.items.back().get("n") + 40;
        }
        else
        {
            int ni = static_cast<int>(r.below(nNodes));
            addTrafficOp(g, ni + 1, 2, r.chance(1, 3), 3);
            est = 8;
            for (auto& m : g.plan.items.back().sub)
                est += 16 + m.get("len") + m.get("trail");
        }
        const Item base = g.plan.items.back();
        if (base.get("k") == OP_RAWSEG || est > 260)
            est = std::min<int64_t>(est, 260);
        auto again = [&](int type, int64_t a, int64_t b, int64_t c)
        {
            Item op = base;
            op.set("t", g.clock += 3);
            addFault(op, type, r.below(3), a, b, c);
            g.plan.items.push_back(op);
            if (freshEach)
                g.addOp(OP_RXRESTART, -1, 0);
        };
        for (int64_t k = 0; k <= est + 2; ++k)
            again(F_TRUNC, k, 0, 0);
        static const int64_t vals8[] = {0, 1, 2, 3, 4, 7, 8, 0x0C, 0x0F, 0x10, 0x40, 0x44, 0x7F, 0x80, 0xFE, 0xFF};
        const int64_t n = est;
        const int64_t vals16[] = {0, 1, n - 26, n - 25, n - 24, n - 23, n - 22, n - 10, n - 9, n - 8, n, n + 1, 0x7FFF, 0x8000, 0xFFFE, 0xFFFF};
        if (tecmpBase)
        {
            for (int64_t v : vals16)
                if (v >= 0)
                    again(F_SETFIELD, FLD_TECMP_PLEN, 0, v);
            for (int64_t v = 0; v < 256; v += (tier ? 1 : 5))
                again(F_SETFIELD, FLD_TECMP_INNER, static_cast<int64_t>(r.below(2)), v);
            for (int64_t v : vals8)
                again(F_SETFIELD, FLD_TECMP_MTYPE, 0, v);
            for (int64_t v : {int64_t(0), int64_t(1), int64_t(2), int64_t(3), int64_t(4), int64_t(5), int64_t(8), int64_t(0xFF), int64_t(0xFF00), int64_t(0xFFFF)})
                again(F_SETFIELD, FLD_TECMP_DTYPE, 0, v);
        }
        else
        {
            for (int fld : {FLD_MSG_PLEN, FLD_INNER_LEN, FLD_INNER_LEN2})
                for (int64_t v : vals16)
                    if (v >= 0)
                        again(F_SETFIELD, fld, static_cast<int64_t>(r.below(3)), fld == FLD_INNER_LEN2 ? (v | (static_cast<int64_t>(r.below(4)) << 16)) : v);
            for (int fld : {FLD_MSG_PLEN, FLD_INNER_LEN, FLD_INNER_LEN2})
                for (int64_t d = -4; d <= 4; ++d)
                    for (int w = 0; w < (fld == FLD_INNER_LEN2 ? 4 : 1); ++w)
                    {
                        again(F_SETFIELD, fld, static_cast<int64_t>(r.below(3)), (d & 0xFFFF) | (static_cast<int64_t>(w) << 16));
                        Item& op = g.plan.items[g.plan.items.size() - (freshEach ? 2 : 1)];
                        op.sub.back().set("rel", 1);
                    }
            for (int fld : {FLD_MSG_PTYPE, FLD_MSG_FLAGS, FLD_VERSION, FLD_MTYPE})
                for (int64_t v : vals8)
                    again(F_SETFIELD, fld, static_cast<int64_t>(r.below(3)), v);
            if (tier)
                for (int64_t v = 0; v < 256; ++v)
                    again(F_SETFIELD, r.pick<int64_t>({FLD_MSG_PTYPE, FLD_MSG_FLAGS, FLD_INNER_LEN}), 0, v);
        }
        g.cfg().set("systematic", 1);
        return std::move(g.plan);  // ops are already in time order
    }
    size_t nOps;
    if (tier && r.chance(1, 50))
        nOps = 2000 + r.below(3000);  // soak
    else
        nOps = (manyEndpoints ? 40 : 0) + (tier ? 5 + r.below(120) : 3 + r.below(40));
    // swarm: enabled event classes
    const bool enFault = r.chance(4, 5), enOrphan = r.chance(2, 3), enTecmp = r.chance(1, 2), enNoise = r.chance(1, 2), enRestart = r.chance(1, 3),
               enStale = r.chance(1, 3);
    const uint32_t faultRate = static_cast<uint32_t>(r.pick<int64_t>({5, 15, 30, 60}));
    const bool enAllocFail = r.chance(1, 3);
    if (!c17 && r.chance(1, tier ? 40 : 150))  // (C17 compares the whole pending table after every call: quadratic there)
    {
        // thousands of endpoints with an unfinished message each: tables far beyond any small-scope bound
        const size_t nEp = 4100 + r.below(1200);
        for (size_t k = 0; k < nEp; ++k)
        {
            Item& op = g.addOp(OP_RAW, noiseNode, 1);
            op.set("dev", static_cast<int64_t>(k % 65536)).set("stream", static_cast<int64_t>((k / 7) % 256)).set("ver", 1).set("mtype", 1).set("lat", 1);
            Item m("m");
            m.set("kind", 0).set("ptype", 0x20).set("len", r.range(0, 3)).set("id", g.msgId()).set("seg", 1);
            op.sub.push_back(std::move(m));
        }
        g.cfg().set("crowd5000", 1);
    }
    if (!c17 && r.chance(1, 15))
    {
        // a few hundred endpoints with random ids, each with a two-segment message: all first segments, then - in random
        // order - either the last segment (must complete) or an unsegmented message (releases the entry). Open-addressing
        // tables, inline slots and wrap-arounds of whatever holds the pending messages get filled, punctured and refilled.
        const size_t nEp = 100 + r.below(220);
        std::set<std::pair<int, int>> ids;
        while (ids.size() < nEp)
            ids.insert({static_cast<int>(r.below(65536)), static_cast<int>(r.below(256))});
        std::vector<std::pair<int, int>> ce(ids.begin(), ids.end());
        std::vector<int64_t> c0(nEp);
        for (size_t k = 0; k < nEp; ++k)
        {
            c0[k] = static_cast<int64_t>(r.below(65536));
            Item& op = g.addOp(OP_RAW, noiseNode, 1);
            op.set("dev", ce[k].first).set("stream", ce[k].second).set("ver", 1).set("mtype", 1).set("lat", 1).set("ctr", c0[k]);
            Item m("m");
            m.set("kind", 0).set("ptype", 0x20).set("len", r.range(1, 12)).set("id", g.msgId()).set("seg", 1);
            op.sub.push_back(std::move(m));
        }
        std::vector<size_t> order(nEp);
        for (size_t k = 0; k < nEp; ++k)
            order[k] = k;
        for (size_t i = nEp; i > 1; --i)
            std::swap(order[i - 1], order[r.below(i)]);
        for (size_t k : order)
        {
            const bool finish = r.chance(2, 3);
            Item& op = g.addOp(OP_RAW, noiseNode, 1);
            op.set("dev", ce[k].first).set("stream", ce[k].second).set("ver", 1).set("mtype", 1).set("lat", 1).set("ctr", (c0[k] + 1) & 0xFFFF);
            Item m("m");
            m.set("kind", 0).set("ptype", 0x20).set("len", r.range(1, 12)).set("id", g.msgId()).set("seg", finish ? 3 : 0);
            op.sub.push_back(std::move(m));
        }
        g.cfg().set("crowd300", 1);
    }
    const bool flood = !c02 && !manyEndpoints && nNodes >= 2 && r.chance(1, tier ? 25 : 60);
    if (flood)
    {
        // one endpoint opens a message and stays silent while MORE THAN A THOUSAND frames of the others go by,
        // then continues: nothing that happens elsewhere may age its reassembly out
        size_t a = 0;
        for (size_t i = 0; i < nNodes; ++i)
            if (nodeType[i] == 2)
                a = i;
        Item& op = g.addOp(OP_RAWSEG, nodeType[a] == 2 ? static_cast<int>(a + 1) : noiseNode, 3);
        op.set("dev", eps[a].first).set("stream", eps[a].second).set("ver", 1).set("mtype", 1).set("ptype", 0x20).set("id", g.msgId());
        op.set("gap", 400000).set("lat", 1);
        for (int k = 0; k < 3; ++k)
        {
            Item sgm("s");
            sgm.set("len", r.range(1, 20));
            op.sub.push_back(sgm);
        }
        const size_t nFlood = 1050 + r.below(500);
        for (size_t k = 0; k < nFlood; ++k)
        {
            size_t b = r.below(nNodes);
            if (b == a)
                b = (b + 1) % nNodes;
            if (nodeType[b] != 2 || r.chance(9, 10))
            {
                Item& fo = g.addOp(OP_RAW, noiseNode, 1);
                fo.set("dev", eps[b].first).set("stream", eps[b].second).set("ver", 1).set("mtype", 1).set("lat", 1);
                Item m("m");
                m.set("kind", 0).set("ptype", 0x20).set("len", r.range(0, 6)).set("id", g.msgId()).set("seg", r.chance(1, 8) ? 1 : 0);
                fo.sub.push_back(std::move(m));
            }
            else
                addTrafficOp(g, static_cast<int>(b + 1), 2, true, 3);
        }
        g.cfg().set("flood", 1);
    }
    if (manyEndpoints)
    {
        // every endpoint opens a reassembly first: the pending table grows past its initial bucket counts (13, 29)
        // while references to other entries are live; continuations follow in the random traffic below
        for (size_t i = 0; i < nNodes; ++i)
        {
            Item& op = g.addOp(OP_RAW, nodeType[i] == 2 ? static_cast<int>(i + 1) : noiseNode, 1);
            op.set("dev", eps[i].first).set("stream", eps[i].second).set("ver", 1).set("mtype", 1);
            Item m("m");
            m.set("kind", 0).set("ptype", 0x20).set("len", r.range(0, 30)).set("id", g.msgId()).set("seg", 1);
            op.sub.push_back(std::move(m));
        }
    }
    for (size_t o = 0; o < nOps; ++o)
    {
        const uint64_t sel = r.below(100);
        const int ni = static_cast<int>(r.below(nNodes));
        if (sel < 3 && sel >= 2 && nodeType[ni] == 2)
        {
            // a segmented message of a few HUGE segments: the reassembled total passes 32 KiB / 64 KiB
            Item& op = g.addOp(OP_RAWSEG, ni + 1, 4);
            op.set("ver", 1).set("mtype", 1).set("ptype", 0x20).set("id", g.msgId());
            const int ns = static_cast<int>(r.range(2, 4));
            for (int k = 0; k < ns; ++k)
            {
                Item sgm("s");
                sgm.set("len", r.range(15000, 40000));
                op.sub.push_back(sgm);
            }
        }
        else if (sel < 2 && nodeType[ni] == 2)
        {
            // a jumbo frame: more than 32 KiB / 64 KiB on the wire
            Item& op = g.addOp(OP_RAW, ni + 1, 1);
            op.set("ver", 1).set("mtype", 1);
            if (r.chance(1, 2))
            {
                // thousands of tiny messages in one frame: the work of one call must stay linear
                Item m("m");
                m.set("kind", 0).set("ptype", 0x20).set("len", r.range(0, 2)).set("id", g.msgId()).set("rep", r.range(1500, 3800));
                g.nextMsgId += 4000;
                op.sub.push_back(std::move(m));
            }
            const size_t nm = op.sub.empty() ? 1 + r.below(4) : 0;
            for (size_t k = 0; k < nm; ++k)
            {
                Item m("m");
                m.set("kind", r.pick<int>({0, wire::K_ETH, wire::K_ANALOG})).set("ptype", 0x20).set("len", r.range(20000, 65535)).set("id", g.msgId());
                m.set("seg", r.chance(1, 6) ? static_cast<int64_t>(r.below(4)) : 0);
                op.sub.push_back(std::move(m));
            }
            if (enFault && r.chance(1, 2))
                addTransitFault(g, op, 1);
        }
        else if (sel < 55)
        {
            int64_t est = addTrafficOp(g, ni + 1, nodeType[ni], true, 6);
            Item& op = g.plan.items.back();
            if (enFault && r.chance(faultRate, 100))
            {
                addTransitFault(g, op, est);
                if (r.chance(1, 4))
                    addTransitFault(g, op, est);
            }
            if (prop == "C02" && enAllocFail && r.chance(1, 5))
            {
                // failing allocation inside the decode call for one of this operation's frames (the k-th allocation of the call)
                addFault(op, F_ALLOCFAIL, static_cast<int64_t>(r.below(static_cast<uint64_t>(std::max<int64_t>(1, est)))), static_cast<int64_t>(r.chance(2, 3) ? r.below(4) : r.below(16)));
            }
        }
        else if (sel < 70 && enOrphan)
        {
            // a lone segment or an inconsistent message from a raw endpoint
            Item& op = g.addOp(OP_RAW, nodeType[ni] == 2 ? ni + 1 : noiseNode, 1);
            op.set("dev", eps[ni].first).set("stream", eps[ni].second);
            op.set("ver", r.chance(2, 3) ? 1 : r.range(1, 255)).set("mtype", r.pick<int64_t>({1, 1, 3, 0, 0xFF}));
            if (r.chance(1, 3))
                op.set("ctr", static_cast<int64_t>(r.below(65536)));
            size_t nm = r.below(3) + (r.chance(1, 10) ? 0 : 1);
            for (size_t k = 0; k < nm; ++k)
            {
                Item m("m");
                m.set("kind", 0).set("ptype", r.pick<int64_t>({0x20, 1, 2, 3, 7, 8, 0})).set("len", r.range(0, 70)).set("id", g.msgId());
                m.set("seg", static_cast<int64_t>(r.below(4))).set("flags", r.chance(1, 8) ? 0x40 : g.pickFlags());
                if (r.chance(1, 5))
                    m.set("decl", r.pick<int64_t>({0, 1, 0xFFFF, m.get("len") + 1, std::max<int64_t>(0, m.get("len") - 1)}));
                op.sub.push_back(std::move(m));
            }
            if (r.chance(1, 6))
                op.set("trail", r.range(1, 30)).set("tfill", static_cast<int64_t>(r.below(3)));
        }
        else if (sel < 80 && enTecmp)
        {
            addTecmpOp(g, tecmpNode, r.chance(1, 2));
            if (r.chance(1, 4))
            {
                // read as a capture-module header, this TECMP frame names one of the endpoints of the run (its counter sits in the
                // device-id bytes, its message type in the stream-id byte) - whatever becomes of the frame, that endpoint's
                // reassembly must not notice
                const size_t a = r.below(nNodes);
                Item& top = g.plan.items.back();
                top.set("ctr", eps[a].first).set("mtype", eps[a].second);
            }
        }
        else if (sel < 90 && enNoise)
        {
            Item& op = g.addOp(OP_NOISE, noiseNode, 1);
            op.set("id", g.msgId());
            switch (r.below(4))
            {
                case 0:
                    op.set("len", static_cast<int64_t>(r.below(28)));
                    break;
                case 1:
                    op.set("len", r.range(0, 200)).set("b0", 0);
                    break;
                case 2:
                    op.set("len", r.logRange(0, tier ? 65536 : 4000));
                    break;
                default:
                    op.set("len", r.range(8, 120)).set("b0", r.range(1, 3));
                    break;
            }
        }
        else if (sel < 94 && enStale)
        {
            Item& op = g.addOp(OP_STALE, noiseNode, 1);
            op.set("idx", static_cast<int64_t>(r.below(64)));
        }
        else if (sel < 96 && enRestart)
            g.addOp(OP_RXRESTART, -1, 0);
        else
            addTrafficOp(g, ni + 1, nodeType[ni], true, 4);
    }
    if (c17)
    {
        // fault-free tail: let everything in flight arrive, then every endpoint's last frame is unsegmented
        g.clock += 100000;
        for (size_t i = 0; i < nNodes; ++i)
        {
            Item& op = g.addOp(OP_RAW, noiseNode, 1);
            op.set("dev", eps[i].first).set("stream", eps[i].second).set("ver", 1).set("mtype", 1).set("lat", 1);
            Item m("m");
            m.set("kind", 0).set("ptype", 0x20).set("len", 4).set("id", g.msgId());
            op.sub.push_back(std::move(m));
        }
    }
    if (c17 && r.chance(1, 4))
        g.cfg().set("straysoak", static_cast<int64_t>(1 + r.below(1000000)));  // heap-growth probe at quiescence (world.cpp, finish)
    return g.finish();
}

// ---------------------------------------------------------------------------------------------- C04
Plan genWire(const std::string& prop, int tier, uint64_t batchSeed, uint64_t idx)
{
    Gen g(prop, tier, batchSeed, idx);
    Rng& r = g.rng;
    g.cfg().set("rx", 1);
    const size_t nNodes = 1 + r.below(3);
    auto eps = g.pickEndpoints(nNodes);
    for (size_t i = 0; i < nNodes; ++i)
        g.addNode(static_cast<int>(i + 1), 2, eps[i].first, eps[i].second).set("ctr0", static_cast<int64_t>(r.below(65536)));
    const int histNode = static_cast<int>(nNodes + 1);
    g.addNode(histNode, 2, eps[0].first, eps[0].second ^ 1);
    // seeded history: open reassemblies, other endpoints, garbage
    const size_t nHist = r.chance(1, 3) ? 0 : r.below(tier ? 40 : 10);
    for (size_t k = 0; k < nHist; ++k)
    {
        if (r.chance(1, 3))
        {
            // open (never finished) reassembly on one of the endpoints under test
            size_t ni = r.below(nNodes);
            Item& op = g.addOp(OP_RAW, histNode, 1);
            op.set("dev", eps[ni].first).set("stream", eps[ni].second).set("ver", 1).set("mtype", 1);
            Item m("m");
            m.set("kind", 0).set("ptype", 0x20).set("len", r.range(0, 40)).set("id", g.msgId()).set("seg", r.pick<int64_t>({1, 1, 2, 3}));
            op.sub.push_back(std::move(m));
        }
        else if (r.chance(1, 2))
            addTrafficOp(g, histNode, 2, true, 4);
        else
        {
            Item& op = g.addOp(OP_NOISE, histNode, 1);
            op.set("id", g.msgId()).set("len", static_cast<int64_t>(r.below(120)));
            if (r.chance(1, 2))
                op.set("b0", 0);
        }
    }
    const size_t nFrames = 1 + r.below(tier ? 12 : 6);
    for (size_t fidx = 0; fidx < nFrames; ++fidx)
    {
        const int node = static_cast<int>(1 + r.below(nNodes));
        Item& op = g.addOp(OP_RAW, node, 1);
        op.set("ver", r.chance(1, 2) ? 1 : r.range(1, 255));
        const int64_t mt = r.chance(1, 8) ? static_cast<int64_t>(r.range(1, 255)) : r.pick<int64_t>({1, 1, 1, 1, 3, 3, 2, 0xFF});
        op.set("mtype", mt);
        if (r.chance(1, 4))
            op.set("dev", static_cast<int64_t>(r.below(65536))).set("stream", static_cast<int64_t>(r.below(256)));
        if (r.chance(1, 5))
            op.set("rsv", static_cast<int64_t>(r.below(256)));
        size_t nm = r.chance(1, 10) ? 0 : 1 + r.below(8);
        // one frame in twenty-five holds MANY messages (a jumbo or reassembled capture): 60..400, with counts around
        // 64 / 93 / 128 / 256 favoured - per-frame containers of the receiver grow and move while earlier packets are out
        const bool manyMsgs = r.chance(1, 25);
        if (manyMsgs)
            nm = r.chance(1, 2) ? static_cast<size_t>(r.pick<int64_t>({64, 93, 128, 256}) + r.range(-2, 3)) : (r.chance(1, 8) ? static_cast<size_t>(r.pick<int64_t>({1024, 2048, 4096, 4096, 5000}) + r.range(-2, 40)) : 60 + r.below(341));
        // one frame in twelve is a SERIES: 5-10 messages with the same kind, length, interface id and flags (one signal sampled
        // again and again), of which a later one may be inconsistent inside - "the previous ones were fine" must not count
        const bool series = !manyMsgs && nm > 0 && r.chance(1, 12);
        if (series)
            nm = 5 + r.below(6);
        size_t total = 8;
        // one frame in thirty is a jumbo frame: several large messages, more than 64 KiB in total
        const bool jumbo = r.chance(1, 30);
        const size_t frameLimit = jumbo || nm > 1000 ? 260000 : 66000;
        for (size_t k = 0; k < nm; ++k)
        {
            Item m("m");
            int kind = 0;
            if (mt == 1)
                kind = r.pick<int>({0, wire::K_CAN, wire::K_CAN, wire::K_CANFD, wire::K_LIN, wire::K_ANALOG, wire::K_ETH});
            else if (mt == 3)
                kind = r.pick<int>({0, wire::K_CMSTAT, wire::K_IFSTAT});
            m.set("kind", kind).set("id", g.msgId());
            if (kind == 0)
                m.set("ptype", mt == 1 ? r.pick<int64_t>({4, 5, 6, 9, 0x0A, 0x0B, 0x0C, 0x20, 0xFF})
                                       : (mt == 3 ? r.pick<int64_t>({3, 4, 5, 0xFF}) : r.range(1, 255)));
            int64_t len;
            const int64_t fixed = static_cast<int64_t>(wire::fixedSize(static_cast<wire::Kind>(kind)));
            switch (r.below(8))
            {
                case 0:
                    len = fixed + r.range(-3, 3);  // around the fixed part (too short ones included)
                    if (len < fixed)
                        m.set("rawbody", 1);
                    break;
                case 1:
                    len = r.range(0, 3);
                    m.set("rawbody", 1);
                    break;
                case 2:
                    len = static_cast<int64_t>(minLenOf(kind)) + r.logRange(0, tier ? 60000 : 3000);
                    break;
                case 3:
                    len = jumbo ? r.range(20000, 65535) : static_cast<int64_t>(minLenOf(kind)) + r.range(0, 80);
                    break;
                default:
                    len = static_cast<int64_t>(minLenOf(kind)) + r.range(0, 80);
                    break;
            }
            len = std::max<int64_t>(0, len);
            if (manyMsgs && len > static_cast<int64_t>(minLenOf(kind)) + 12)
                len = static_cast<int64_t>(minLenOf(kind)) + r.range(0, 12);
            if (nm > 1000)
            {
                // thousands of messages: tiny generic ones (a 5000-message frame stays below 120 KB)
                kind = 0;
                m.set("kind", 0).set("ptype", 0x20);
                len = r.range(0, 3);
            }
            if (total + 16 + static_cast<size_t>(len) > frameLimit)
                len = static_cast<int64_t>(minLenOf(kind));
            total += 16 + static_cast<size_t>(len);
            m.set("len", len);
            m.set("ts", static_cast<int64_t>(g.pickTs())).set("ifid", static_cast<int64_t>(r.next() & 0xFFFFFFFF));
            int64_t fl = g.pickFlags();
            if (!manyMsgs && r.chance(1, 25))
                fl |= 0x40;  // error in payload (ends the walk: not in the frames that are about thousands of messages)
            m.set("flags", fl);
            // deliberately inconsistent inner structure
            if (kind != 0 && r.chance(1, 3))
            {
                switch (r.below(4))
                {
                    case 0:
                    case 1:
                    {
                        const int64_t room = len - fixed;
                        m.set("ilen", r.pick<int64_t>({0, 1, room - 1, room, room + 1, room + 2, 0xFF, 0x7FFF, 0xFFFF, static_cast<int64_t>(r.below(300))}));
                        m.set("iwhich", static_cast<int64_t>(r.below(kind == wire::K_CMSTAT ? 5 : 3)));
                        if (r.chance(1, 2))
                            m.set("izero", r.range(1, 4));  // zero bytes right behind the length field: a wrapped length then "fits"
                        if (r.chance(1, 3))
                            m.set("ilen2", std::max<int64_t>(0, room - std::min<int64_t>(room, std::max<int64_t>(0, m.get("ilen"))) - r.range(-2, 14))).set("iwhich2", m.get("iwhich") + 1);
                        break;
                    }
                    case 2:
                        // bus error flags live in the low flag byte (offset 1) of CAN / CAN-FD / Ethernet / LIN
                        m.set("p1o", static_cast<int64_t>(r.below(2))).set("p1v", 1LL << r.below(8));
                        break;
                    default:
                        m.set("p1o", r.range(0, std::max<int64_t>(1, len - 1))).set("p1v", static_cast<int64_t>(r.below(256)));
                        break;
                }
            }
            if (series && k > 0)
            {
                const Item& first = op.sub.front();
                for (const char* key : {"kind", "len", "ifid", "flags", "ptype"})
                {
                    if (first.has(key))
                        m.set(key, first.get(key));
                    else
                        m.erase(key);
                }
                for (const char* key : {"ilen", "iwhich", "izero", "ilen2", "iwhich2", "p1o", "p1v", "rawbody"})
                    m.erase(key);
                if (first.has("rawbody"))
                    m.set("rawbody", 1);
                if (k >= 4 && first.get("kind") != 0 && r.chance(1, 2))
                {
                    if (r.chance(1, 2))
                        m.set("p1o", static_cast<int64_t>(r.below(2))).set("p1v", 1LL << r.below(8));  // a bus-error flag
                    else
                        m.set("ilen", r.pick<int64_t>({0xFF, 0x7FFF, 0xFFFF, first.get("len") + 1})).set("iwhich", 0);
                }
            }
            op.sub.push_back(std::move(m));
        }
        if (r.chance(1, 8))
            op.set("slo", r.chance(2, 3) ? static_cast<int64_t>(r.below(5)) * 2 : static_cast<int64_t>(r.below(40))).set("sld", r.pick<int64_t>({0, 8, 12, 16, 24, 28, 32, 40}) + (r.chance(1, 4) ? r.range(-2, 2) : 0));
        // transit: a frame cut short, or Ethernet minimum-size zero padding
        switch (r.below(6))
        {
            case 0:
                addFault(op, F_TRUNC, 0, static_cast<int64_t>(r.below(total + 1)));
                break;
            case 1:
                addFault(op, F_TRUNC, 0, r.range(0, 40));
                break;
            case 2:
                addFault(op, F_PAD, 0, r.pick<int64_t>({1, 7, 15, 16, 17, 18, 32, 46, 100, 1000}), 0);
                break;
            default:
                break;
        }
    }
    return g.finish();
}

}  // namespace sim
