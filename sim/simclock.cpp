// simclock.cpp -- the simulated wall clock. The library reads no clock on the pinned tree; if a change makes it read one
// (a timeout, an age-based clean-up, a restart detection), the value it gets must be the simulator's, or the run would
// neither replay nor ever see the minutes and hours that pass between two frames in production. clock_gettime /
// gettimeofday / time are interposed for the whole process (the executable's definitions win over libc's for libstdc++'s
// std::chrono as well); they answer from the simulated clock only while a plan is being executed on the calling thread
// (ScopedSimClock), and from the real clock otherwise (budgets, watchdogs, minimisation deadlines of the harness).
#include <dlfcn.h>
#include <sys/syscall.h>
#include <sys/time.h>
#include <time.h>
#include <unistd.h>

#include <cstdint>

namespace sim
{
static thread_local bool g_simClockOn = false;
static thread_local uint64_t g_simClockNs = 0;
static thread_local uint64_t g_clockReads = 0;

void simClockEnable(bool on)
{
    g_simClockOn = on;
    if (on)
        g_clockReads = 0;
}
void simClockSet(uint64_t ns)
{
    g_simClockNs = ns;
}
uint64_t simClockReads()
{
    return g_clockReads;
}
}  // namespace sim

#if defined(SIM_VARIANT_ASAN) || defined(SIM_VARIANT_PLAIN) || defined(SIM_VARIANT_SCHED)
static int realClockGettime(clockid_t id, struct timespec* ts)
{
    return static_cast<int>(syscall(SYS_clock_gettime, id, ts));
}

extern "C" int clock_gettime(clockid_t id, struct timespec* ts)
{
    if (!sim::g_simClockOn)
        return realClockGettime(id, ts);
    ++sim::g_clockReads;
    // every clock id shows the same simulated instant (the realtime clocks with an epoch offset: 2026-01-01)
    uint64_t ns = sim::g_simClockNs;
    if (id == CLOCK_REALTIME || id == CLOCK_REALTIME_COARSE || id == CLOCK_TAI)
        ns += 1767225600ULL * 1000000000ULL;
    ts->tv_sec = static_cast<time_t>(ns / 1000000000ULL);
    ts->tv_nsec = static_cast<long>(ns % 1000000000ULL);
    return 0;
}

extern "C" int gettimeofday(struct timeval* tv, void* tz)
{
    (void) tz;
    struct timespec ts;
    clock_gettime(CLOCK_REALTIME, &ts);
    tv->tv_sec = ts.tv_sec;
    tv->tv_usec = ts.tv_nsec / 1000;
    return 0;
}

extern "C" time_t time(time_t* out)
{
    struct timespec ts;
    clock_gettime(CLOCK_REALTIME, &ts);
    if (out)
        *out = ts.tv_sec;
    return ts.tv_sec;
}
#endif
