// Seeded randomness for the simulator. One integer (the run seed) decides everything:
// every component draws from its own named xoshiro256** stream derived from the run seed,
// so adding a draw in one component never shifts another. Nothing here reads a clock.
#pragma once
#include <cstddef>
#include <cstdint>
#include <cstring>
#include <initializer_list>
#include <string>
#include <vector>

namespace sim
{

inline uint64_t splitmix64_next(uint64_t& x)
{
    uint64_t z = (x += 0x9E3779B97F4A7C15ULL);
    z = (z ^ (z >> 30)) * 0xBF58476D1CE4E5B9ULL;
    z = (z ^ (z >> 27)) * 0x94D049BB133111EBULL;
    return z ^ (z >> 31);
}

// stateless mixer
inline uint64_t mix64(uint64_t x)
{
    return splitmix64_next(x);
}

inline uint64_t fnv1a(const void* data, size_t n, uint64_t h = 0xcbf29ce484222325ULL)
{
    const uint8_t* p = static_cast<const uint8_t*>(data);
    for (size_t i = 0; i < n; ++i)
    {
        h ^= p[i];
        h *= 0x100000001b3ULL;
    }
    return h;
}

inline uint64_t hashStr(const std::string& s, uint64_t h = 0xcbf29ce484222325ULL)
{
    return fnv1a(s.data(), s.size(), h);
}

inline uint64_t hashU64(uint64_t v, uint64_t h)
{
    return mix64(h ^ mix64(v + 0x632BE59BD9B4E019ULL));
}

class Rng
{
public:
    Rng(uint64_t seed, const char* stream)
    {
        uint64_t x = seed ^ hashStr(stream);
        for (auto& w : s)
            w = splitmix64_next(x);
    }

    uint64_t next()
    {
        const uint64_t result = rotl(s[1] * 5, 7) * 9;
        const uint64_t t = s[1] << 17;
        s[2] ^= s[0];
        s[3] ^= s[1];
        s[1] ^= s[2];
        s[0] ^= s[3];
        s[2] ^= t;
        s[3] = rotl(s[3], 45);
        return result;
    }

    // uniform in [0, n) ; n == 0 -> 0
    uint64_t below(uint64_t n)
    {
        if (n <= 1)
            return 0;
        // rejection-free multiply-shift is good enough here (bias < 2^-32 for our n)
        return static_cast<uint64_t>((static_cast<unsigned __int128>(next()) * n) >> 64);
    }

    // uniform in [lo, hi] inclusive
    int64_t range(int64_t lo, int64_t hi)
    {
        if (hi <= lo)
            return lo;
        return lo + static_cast<int64_t>(below(static_cast<uint64_t>(hi - lo) + 1));
    }

    bool chance(uint32_t num, uint32_t den)
    {
        return below(den) < num;
    }

    template <typename T>
    T pick(std::initializer_list<T> l)
    {
        return *(l.begin() + below(l.size()));
    }

    template <typename T>
    const T& pickv(const std::vector<T>& v)
    {
        return v[below(v.size())];
    }

    // log-uniform in [lo, hi]
    int64_t logRange(int64_t lo, int64_t hi)
    {
        if (hi <= lo)
            return lo;
        int bitsLo = 0, bitsHi = 0;
        while ((1LL << bitsLo) < lo + 1)
            ++bitsLo;
        while ((1LL << bitsHi) < hi + 1)
            ++bitsHi;
        int b = static_cast<int>(range(bitsLo, bitsHi));
        int64_t a = b == 0 ? 0 : (1LL << (b - 1));
        int64_t z = (1LL << b) - 1;
        if (a < lo)
            a = lo;
        if (z > hi)
            z = hi;
        if (z < a)
            return lo;
        return range(a, z);
    }

private:
    static uint64_t rotl(uint64_t x, int k)
    {
        return (x << k) | (x >> (64 - k));
    }
    uint64_t s[4];
};

// Byte i of logical message m. Unique per message, position dependent: a hole, a repeat or
// a mix of two messages is visible and attributable.
inline uint8_t contentByte(uint32_t m, uint32_t i)
{
    uint64_t w = mix64((static_cast<uint64_t>(m) << 32) ^ (i >> 3) ^ 0xC0FFEE1234ULL);
    return static_cast<uint8_t>(w >> ((i & 7) * 8));
}

inline void fillContent(uint8_t* dst, uint32_t m, uint32_t off, size_t n)
{
    for (size_t k = 0; k < n; ++k)
        dst[k] = contentByte(m, off + static_cast<uint32_t>(k));
}

}  // namespace sim
