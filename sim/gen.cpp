// gen.cpp -- plan generators for the codec family (C01 C07 C08 C09 C10) and dispatch
#include <array>

#include "gen_common.h"

namespace sim
{

uint64_t runSeed(uint64_t batchSeed, const std::string& prop, uint64_t idx)
{
    uint64_t x = batchSeed ^ hashStr(prop) ^ (idx * 0x9E3779B97F4A7C15ULL);
    return splitmix64_next(x);
}

bool knownProperty(const std::string& p)
{
    static const char* all[] = {"C01", "C02", "C03", "C04", "C05", "C06", "C07", "C08", "C09", "C10", "C13", "C15", "C16", "C17", "C18", "C19", "C20"};
    for (auto a : all)
        if (p == a)
            return true;
    return false;
}

Plan generate(const std::string& prop, int tier, uint64_t batchSeed, uint64_t idx)
{
    if (prop == "C01" || prop == "C07" || prop == "C08" || prop == "C09" || prop == "C10")
        return genCodec(prop, tier, batchSeed, idx);
    if (prop == "C05")
        return genReasm(prop, tier, batchSeed, idx);
    if (prop == "C06")
        return genFaulty(prop, tier, batchSeed, idx);
    if (prop == "C02" || prop == "C17" || prop == "C18")
        return genHostile(prop, tier, batchSeed, idx);
    if (prop == "C04")
        return genWire(prop, tier, batchSeed, idx);
    if (prop == "C03")
        return genProbe(prop, tier, batchSeed, idx);
    if (prop == "C13")
        return genBuild(prop, tier, batchSeed, idx);
    if (prop == "C15")
        return genTecmp(prop, tier, batchSeed, idx);
    if (prop == "C16")
        return genStatus(prop, tier, batchSeed, idx);
    if (prop == "C20")
    {
        // workloads of the other generators, executed under hostile fresh memory
        // (the hostile families C02 / C18 were tried here as well and taken out again: their heaviest plans - thousands of
        // endpoints, 70000-frame floods - take minutes under valgrind and would turn the 120 s watchdog into a false alarm)
        static const char* mix[] = {"C01", "C05", "C13", "C15", "C16", "C06", "C04", "C10"};
        Plan p = generate(mix[idx % 8], tier, batchSeed ^ 0xC19C20, idx);
        if (p.cfgGet("wraprun", 0))
            p = generate(mix[idx % 8], tier, batchSeed ^ 0xC19C20, idx + 1000003);  // 65536-frame runs are too slow under valgrind
        if (p.cfgGet("wraprun", 0))
            p = generate("C05", tier, batchSeed ^ 0xC19C20, idx);
        p.prop = prop;
        p.seed = batchSeed;
        p.idx = static_cast<int64_t>(idx);
        {
            Rng r(runSeed(batchSeed, prop, idx), "c20-post");
            for (auto& it : p.items)
                if (it.tag == "op" && it.get("k") == OP_STATUPD && it.get("kind", wire::K_IFSTAT) == wire::K_IFSTAT && r.chance(1, 3))
                    it.set("cut", static_cast<int64_t>(r.below(32)));
            // C20 has no "without NUL" restriction (that is C13's): capture-module strings that bring their own terminator,
            // or carry a NUL in the middle (views taken from fixed-size char arrays)
            for (auto& it : p.items)
                if (it.tag == "op" && it.get("k") == OP_BUILD && it.get("cls", 0) == wire::K_CMSTAT && r.chance(1, 3))
                    it.set("nul", static_cast<int64_t>(1 + r.below(255)));
        }
        return p;
    }
    if (prop == "C19")
    {
        // 2-4 thread workloads taken from the other generators (cut to a few operations: the library runs
        // unoptimised and instrumented here) + the scheduler configuration
        static const int mixn[] = {1, 5, 13, 15, 16, 6, 4, 10, 18, 17, 7, 8, 2, 3, 9};
        static const size_t nMix = sizeof mixn / sizeof mixn[0];
        Rng r(runSeed(batchSeed, prop, idx), "c19");
        Plan p;
        p.prop = prop;
        p.seed = batchSeed;
        p.idx = static_cast<int64_t>(idx);
        const int n = static_cast<int>(2 + r.below(3));
        Item cfg("cfg");
        cfg.set("nthreads", n).set("schedseed", static_cast<int64_t>(r.next() >> 1));
        cfg.set("mean", r.pick<int64_t>({1, 2, 5, 20, 100, 1000, 10000}));
        cfg.set("mode", r.chance(1, 4) ? 1 : 0).set("points", static_cast<int64_t>(1 + r.below(6)));
        cfg.set("horizon", r.pick<int64_t>({2000, 20000, 100000, 400000}));
        p.items.push_back(cfg);
        const bool sameWorkload = r.chance(1, 2);  // identical workloads on all threads: every access (also on rare paths) has a twin
        {
            // (instances engine, threads.cpp) how many frames neighbour instances decode in between: mostly none or a thousand,
            // rarely past 2^16 / 2^17 (whatever is counted, aged or recycled process-wide gets its chance)
            const uint64_t fl = r.below(40);
            p.items.front().set("nbflood", fl < 20 ? 0 : fl < 34 ? static_cast<int64_t>(300 + r.below(3000)) : fl < 39 ? static_cast<int64_t>(66000 + r.below(6000)) : static_cast<int64_t>(132000 + r.below(10000)));
        }
        if (r.chance(1, 2))
            p.items.front().set("shareinput", 1);  // equal receive buffers are ONE storage for all threads (sched.h, internInput)
        if (sameWorkload && r.chance(1, 3))
            p.items.front().set("clone", static_cast<int64_t>(1 + r.below(4))).set("clonedeliv", static_cast<int64_t>(r.below(4)));  // cloned start (threads.cpp): the threads continue on copies of one object
        const int shared = mixn[r.below(nMix)];
        const uint64_t sharedIdx = r.next() % 1000000;
        for (int t = 0; t < n; ++t)
        {
            const int pn = sameWorkload ? shared : mixn[r.below(nMix)];
            char name[8];
            snprintf(name, sizeof name, "C%02d", pn);
            Plan sub = generate(name, 0, batchSeed ^ 0xC19, sameWorkload ? sharedIdx : r.next() % 1000000);
            const size_t maxOps = tier ? 9 : 6;
            // a random subset of the operations (order kept): later operations of a plan - removals, restarts, the n-th
            // call - get their turn as well. Identical on all threads when the workload is shared.
            std::vector<size_t> opIdx;
            for (size_t i = 0; i < sub.items.size(); ++i)
                if (sub.items[i].tag == "op")
                    opIdx.push_back(i);
            std::vector<bool> keepOp(sub.items.size(), false);
            {
                Rng pickr(sameWorkload ? sharedIdx : r.next(), "c19-ops");
                std::vector<size_t> chosen = opIdx;
                for (size_t i = chosen.size(); i > 1; --i)
                    std::swap(chosen[i - 1], chosen[pickr.below(i)]);
                if (chosen.size() > maxOps)
                    chosen.resize(maxOps);
                for (size_t i : chosen)
                    keepOp[i] = true;
            }
            size_t itemNo = 0;
            bool hasCfg = false;
            for (auto& it : sub.items)
            {
                const size_t myNo = itemNo++;
                if (it.tag == "op")
                {
                    if (!keepOp[myNo])
                        continue;
                    // keep single operations small
                    if (it.sub.size() > 6)
                        it.sub.resize(6);
                    for (auto& m : it.sub)
                    {
                        if (m.has("len") && m.get("len") > 600)
                            m.set("len", 100 + m.get("len") % 500);
                        if (m.has("rep"))
                            m.set("rep", 3);
                    }
                    if (it.has("n") && it.get("n") > 600)
                        it.set("n", it.get("n") % 600);
                }
                Item c = it;
                c.set("th", t);
                if (c.tag == "cfg")
                {
                    c.set("propn", pn);
                    hasCfg = true;
                }
                p.items.push_back(std::move(c));
            }
            if (!hasCfg)
            {
                Item c("cfg");
                c.set("th", t).set("propn", pn);
                p.items.push_back(c);
            }
            if (pn == 16 && (sameWorkload ? (sharedIdx % 2 == 0) : r.chance(1, 2)))
            {
                // a tour of the tracker's API in a state where every call does something: device known, interfaces known,
                // a known interface removed, a new one appearing afterwards, the device removed and re-appearing, clear
                // (a random subset of a random history rarely keeps such chains intact)
                const uint64_t tr = sameWorkload ? sharedIdx : r.next();
                const int64_t dev = 40 + static_cast<int64_t>(tr % 5);
                int64_t tt = 2000000;
                uint32_t mid = 990000 + static_cast<uint32_t>(tr % 1000) * 16;
                auto upd = [&](int kind, int64_t ifid)
                {
                    Item op("op");
                    op.set("k", OP_STATUPD).set("t", tt += 3).set("dev", dev).set("stream", 0).set("id", static_cast<int64_t>(mid++)).set("ts", tt).set("ifid", 7).set("flags", 0);
                    op.set("build", 2).set("kind", kind).set("len", static_cast<int64_t>(minLenOf(kind)) + 12).set("th", t);
                    if (kind == wire::K_IFSTAT)
                        op.set("pifid", ifid);
                    p.items.push_back(op);
                };
                auto act = [&](int what, int64_t ifid)
                {
                    Item op("op");
                    op.set("k", OP_STATUS).set("t", tt += 3).set("what", what).set("dev", dev).set("ifid", ifid).set("th", t);
                    p.items.push_back(op);
                };
                upd(wire::K_CMSTAT, 0);
                upd(wire::K_IFSTAT, 11);
                upd(wire::K_IFSTAT, 12);
                act(2, 11);
                upd(wire::K_IFSTAT, 13);
                upd(wire::K_IFSTAT, 11);
                act(2, 99);
                act(1, dev);
                upd(wire::K_CMSTAT, 0);
                upd(wire::K_IFSTAT, 14);
                act(3, 0);
                // the tracker must exist in this thread's world
                for (auto& it : p.items)
                    if (it.tag == "cfg" && it.has("th") && it.get("th") == t)
                        it.set("status", 1);
            }
            if ((sameWorkload ? (sharedIdx % 6 == 0) : r.chance(1, 6)) && (pn == 5 || pn == 17 || pn == 18 || pn == 4 || pn == 6 || pn == 1))
            {
                // a reassembly of 32 KiB and more on this thread (size-dependent paths: pools, reserve thresholds)
                Item node("node");
                node.set("id", 60).set("type", 2).set("dev", 9).set("stream", 9).set("lat", 1).set("gap", 1).set("th", t);
                p.items.push_back(node);
                Item op("op");
                op.set("k", OP_RAWSEG).set("t", 1000000).set("node", 60).set("ver", 1).set("mtype", 1).set("ptype", 0x20).set("id", sameWorkload ? 4242 : 4242 + t).set("th", t);
                const int ns = 2 + static_cast<int>((sameWorkload ? sharedIdx : r.next()) % 3);
                for (int k = 0; k < ns; ++k)
                {
                    Item sg("s");
                    sg.set("len", 14000 + static_cast<int64_t>((sameWorkload ? sharedIdx + k : r.next()) % 7000));
                    op.sub.push_back(sg);
                }
                p.items.push_back(op);
            }
        }
        return p;
    }
    Plan p;
    p.prop = prop;
    return p;
}

// ---------------------------------------------------------------------------------------------- codec family
Plan genCodec(const std::string& prop, int tier, uint64_t batchSeed, uint64_t idx)
{
    Gen g(prop, tier, batchSeed, idx);
    Rng& r = g.rng;
    const bool c01 = prop == "C01", c07 = prop == "C07", c08 = prop == "C08", c09 = prop == "C09", c10 = prop == "C10";
    g.cfg().set("rx", c01 ? 1 : 0);
    g.bigFrames = c01 || c10;

    const bool wrapRun = c09 && r.chance(tier ? 3 : 1, 10);
    if ((c01 && r.chance(1, tier ? 300 : 1000)) || ((c07 || c08 || c10) && r.chance(1, tier ? 100 : 300)) || (c09 && r.chance(1, tier ? 30 : 100)))
    {
        // one encoder session that crosses the 16-bit sequence counter wrap with a SEGMENTED packet straddling it,
        // everything decoded: 65530+ one-frame messages, then a packet of 3-6 segments starting a few frames before 65536
        g.cfg().set("rx", c01 ? 1 : 0);
        auto ep = g.pickEndpoints(1);
        g.addNode(1, 1, ep[0].first, ep[0].second).set("gap", 0).set("lat", 1);
        const int64_t maxB = r.range(25, 40), per = maxB - 24;
        const int64_t minB = r.chance(1, 2) ? 0 : r.range(0, maxB);
        int64_t left = 65536 - r.range(1, 7);  // frames before the segmented packet
        while (left > 0)
        {
            const int64_t n = std::min<int64_t>(left, r.range(9000, 20000));
            Item& op = g.addOp(OP_ENC, 1, n);
            op.set("min", minB).set("max", maxB).set("ver", 1).set("mode", 0);
            Item m("m");
            // one frame per message either way: a message of per-1 bytes leaves no room for a second one
            m.set("kind", 0).set("mtype", 1).set("ptype", 0x20).set("len", per > 1 && r.chance(1, 2) ? per - 1 : per).set("id", g.msgId()).set("rep", n);
            g.nextMsgId += 20001;
            op.sub.push_back(m);
            left -= n;
            if (left == 0)
            {
                Item big("m");
                big.set("kind", 0).set("mtype", 1).set("ptype", 0x20).set("len", per * r.range(2, 5) + r.range(1, per)).set("id", g.msgId());
                big.set("ts", static_cast<int64_t>(g.pickTs())).set("ifid", 77);
                op.sub.push_back(big);
                Item tail("m");
                tail.set("kind", 0).set("mtype", 1).set("ptype", 0x20).set("len", per > 1 ? per - 1 : per).set("id", g.msgId()).set("rep", 5);
                g.nextMsgId += 10;
                op.sub.push_back(tail);
            }
        }
        g.cfg().set("wraprun", 1);
        return g.finish();
    }
    const size_t nNodes = c01 ? 1 + r.below(3) : (c09 || c10 ? 1 : 1 + r.below(2));
    auto eps = g.pickEndpoints(nNodes);
    for (size_t i = 0; i < nNodes; ++i)
    {
        Item& n = g.addNode(static_cast<int>(i + 1), 1, eps[i].first, eps[i].second);
        if ((c09 || c10) && r.chance(1, 5))
            n.set("setids", 0);  // never configured: device 0, stream 0
    }
    std::vector<std::array<int64_t, 2>> curId(nNodes + 1);
    for (size_t i = 0; i < nNodes; ++i)
        curId[i + 1] = {eps[i].first, eps[i].second};
    std::vector<int> kinds = g.pickKindSet();
    int64_t minB, maxB;
    g.pickCtx(minB, maxB);
    if (wrapRun)
    {
        maxB = r.range(25, 40);
        minB = r.chance(1, 2) ? 0 : r.range(0, maxB);
        kinds = {wire::K_GENERIC};
    }
    const int64_t frameBudget = tier ? 3000 : 1200;  // frames per run, roughly
    int64_t framesSoFar = 0;

    size_t nOps;
    if (wrapRun)
        nOps = 12 + r.below(10);
    else if (c09)
        nOps = 3 + r.below(tier ? 38 : 20);
    else if (c10)
        nOps = 2 + r.below(8);
    else
        nOps = (1 + r.below(6)) * nNodes;
    // one run in a hundred: HUNDREDS of small encode calls on the same encoder(s) - whatever is counted, recycled or tidied up
    // "every n-th call" (256, 512, 1000, 1024) gets its turn; the frame budget below still ends the run
    const bool manyCalls = !wrapRun && r.chance(1, 100);
    if (manyCalls)
        nOps = 270 + r.below(850);

    for (size_t o = 0; o < nOps; ++o)
    {
        const int node = static_cast<int>(1 + r.below(nNodes));
        if (c09 && !wrapRun && r.chance(1, 4))
        {
            Item& op = g.addOp(OP_CMSET, node, 0);
            int what = static_cast<int>(r.below(3));
            int64_t val = what == 0 ? r.pick<int64_t>({0, 1, 0xFFFF, 0x1234, static_cast<int64_t>(r.below(65536))})
                                    : r.pick<int64_t>({0, 1, 0xFF, static_cast<int64_t>(r.below(256))});
            if (what < 2 && r.chance(1, 4))
                val = curId[static_cast<size_t>(node)][what];  // the SAME id again: still a reset
            if (what < 2)
                curId[static_cast<size_t>(node)][what] = val;
            op.set("what", what).set("val", val);
            continue;
        }
        if (!c01 && r.chance(3, 10))
            g.pickCtx(minB, maxB);  // contexts change between calls
        else if (!c01 && o > 0 && r.chance(1, 4))
        {
            // ... or by exactly one small step: caches keyed on too few bits of the context
            switch (r.below(5))
            {
                case 0:
                    minB = std::min<int64_t>(maxB, minB + r.range(1, 2));
                    break;
                case 1:
                    minB = std::max<int64_t>(0, minB - r.range(1, 2));
                    break;
                case 2:
                    minB = r.chance(1, 2) ? maxB : std::max<int64_t>(0, maxB - 1);
                    break;
                case 3:
                    maxB = std::max<int64_t>(std::max<int64_t>(25, minB), maxB - 1);
                    break;
                default:
                    maxB = maxB + 1;
                    break;
            }
        }
        if (wrapRun)
        {
            maxB = r.range(25, 40);
            minB = r.chance(1, 2) ? 0 : r.range(0, maxB);
        }
        // batch
        size_t nMsg;
        if (wrapRun)
            nMsg = 1;
        else if ((c07 || c10 || c09) && r.chance(1, 12))
            nMsg = 0;  // empty batch
        else if (c07 || c08)
            nMsg = r.chance(1, 6) ? 13 + r.below(28) : 1 + r.below(12);
        else
            nMsg = 1 + r.below(12);
        if (manyCalls && nMsg > 2)
            nMsg = 1 + r.below(2);
        const bool manyFrames = !wrapRun && !manyCalls && r.chance(1, 40);  // more than 255 frames out of ONE call
        if (manyFrames)
        {
            maxB = r.range(25, 60);
            minB = r.chance(1, 2) ? 0 : r.range(0, maxB);
        }
        const bool swarmOfTiny = !wrapRun && !manyFrames && !manyCalls && !c09 && r.chance(1, 40);  // > 127 / > 255 messages in one frame
        int64_t swarmLen = 0;
        if (swarmOfTiny)
        {
            nMsg = 120 + r.below(200);
            maxB = r.pick<int64_t>({9000, 65559});
            minB = r.chance(1, 2) ? 0 : r.range(0, maxB);
            if (r.chance(1, 2))
            {
                // a message COUNT on an 8/9-bit boundary, then a packet that does not fit the little room left
                const int64_t cnt = r.pick<int64_t>({255, 256, 256, 257, 511, 512, 513, 1024});
                swarmLen = r.range(1, 3);
                maxB = 8 + cnt * (16 + swarmLen) + r.range(1, 40);
                minB = r.chance(1, 2) ? 0 : r.range(0, maxB);
                nMsg = static_cast<size_t>(cnt) + 1 + r.below(3);
            }
        }
        if (c10 && o + 1 == nOps && nMsg == 0)
            nMsg = 1;
        // estimate frames to keep runs short
        const int64_t per = maxB - 24;
        int64_t maxFramesPerMsg = manyCalls ? 2 : std::max<int64_t>(3, (frameBudget - framesSoFar) / std::max<size_t>(1, nMsg) / 2);
        maxFramesPerMsg = std::min<int64_t>(maxFramesPerMsg, tier ? 400 : (r.chance(1, 20) ? 300 : 150));  // sometimes more than 255 segments
        std::vector<Item> msgs;
        int64_t freeBytes = -1;
        int64_t estFrames = 0;
        int lastType = -1;
        for (size_t i = 0; i < nMsg; ++i)
        {
            Item m("m");
            if (wrapRun)
            {
                m.set("kind", 0).set("len", r.range(1, std::max<int64_t>(1, std::min<int64_t>(16, per)))).set("id", g.msgId());
                m.set("rep", r.range(3000, 7000));
                g.nextMsgId += 8000;
                m.set("mtype", 1).set("ptype", 0x20);
                estFrames += m.get("rep");
            }
            else
            {
                g.fillMsg(m, kinds, maxB, freeBytes, maxFramesPerMsg);
                if (swarmOfTiny)
                    m.set("kind", 0).set("len", swarmLen ? (i + 3 >= nMsg ? r.range(20, 70) : swarmLen) : r.range(1, 4)).set("mtype", 1).set("ptype", 0x20);
                if ((c09 || c10) && !swarmOfTiny && r.chance(1, 12))
                {
                    // C09 / C10 put no restriction on the batch: a packet with an EMPTY payload, or one whose message type is 0
                    // ("undefined" - what a decoder hands out for a payload it could not validate, relayed), in the middle of
                    // otherwise ordinary packets, or first in the batch
                    m.set("kind", 0).set("ptype", 0x20);
                    if (r.chance(1, 2))
                        m.set("len", 0).set("zerolen", 1).set("mtype", r.pick<int64_t>({1, 3, 2, 0xFF}));
                    else
                        m.set("mtype", 0).set("mtype0", 1).set("len", r.range(1, 40));
                }
                if ((c07 || c08 || c10) && r.chance(1, 12))
                    m.set("pver", r.chance(1, 2) ? r.range(1, 3) : r.range(1, 255));  // this packet brings a protocol version of its own
                if (manyFrames && i == 0)
                {
                    // one frame per message: 250..600 of them
                    m.set("kind", 0).set("len", std::max<int64_t>(1, maxB - 24 - r.range(0, 1))).set("mtype", 1).set("ptype", 0x20).set("rep", r.range(250, 600));
                    g.nextMsgId += 700;
                }
                if (maxB == 65559 && r.chance(1, 4))
                    m.set("kind", 0).set("mtype", 1).set("ptype", 0x20).set("len", 65535 - r.range(0, 2));  // the largest packet exactly fits the largest frame
                if (!msgs.empty() && r.chance(1, 10))
                {
                    // same header fields as the previous message (only the content differs)
                    for (const char* k : {"ts", "ifid", "flags"})
                        m.set(k, msgs.back().get(k));
                }
                const int64_t L = m.get("len");
                // track the room left in the current frame like the reference packer does
                int mt = static_cast<int>(m.has("mtype") && m.get("kind") == 0 ? m.get("mtype") : (m.get("kind") >= 0x31 ? 3 : 1));
                if (16 + L > maxB - 8)
                {
                    estFrames += (L + per - 1) / per;
                    freeBytes = -1;
                }
                else if (freeBytes >= 16 + L && mt == lastType)
                    freeBytes -= 16 + L;
                else
                {
                    freeBytes = maxB - 8 - 16 - L;
                    estFrames += 1;
                }
                lastType = mt;
            }
            msgs.push_back(std::move(m));
        }
        if (framesSoFar + estFrames > frameBudget && !wrapRun && o > 0)
            break;
        framesSoFar += estFrames;
        Item& op = g.addOp(OP_ENC, node, estFrames);
        op.set("min", minB).set("max", maxB);
        op.set("ver", r.chance(1, 2) ? 1 : (r.chance(1, 4) ? r.pick<int64_t>({0x7F, 0x80, 0xFE, 0xFF}) : r.range(1, 255)));
        op.set("mode", static_cast<int64_t>(r.below(4)));
        if ((c10 ? r.chance(1, 6) : ((c01 || c07 || c08) && r.chance(1, 12))) && !wrapRun && !manyFrames && !swarmOfTiny && msgs.size() >= 1)
        {
            // the same packets first go into a call that is aborted half way (other frame size), then into the real one
            op.set("abort", static_cast<int64_t>(r.below(msgs.size()))).set("abwhere", static_cast<int64_t>(r.below(3)));
            if (op.get("abwhere") == 2)
                op.set("abort", static_cast<int64_t>(r.chance(1, 2) ? r.below(4) : r.below(24)));  // the k-th allocation inside the call fails
            op.set("abmax", r.chance(1, 2) ? maxB : r.pick<int64_t>({25, 40, 64, 300, 1500, 9000}));
        }
        op.sub = std::move(msgs);
    }
    return g.finish();
}

// ---------------------------------------------------------------------------------------------- C05
// well-formed segmented messages of several endpoints, interleaved by the network; fault-free
Plan genReasm(const std::string& prop, int tier, uint64_t batchSeed, uint64_t idx)
{
    Gen g(prop, tier, batchSeed, idx);
    Rng& r = g.rng;
    g.cfg().set("rx", 1);
    // one run in six: many endpoints on ONE device with random stream ids (or one stream on many devices), so that
    // keys which collide in one coordinate - and in the buckets of a hash table - are present at the same time
    const bool crowd = r.chance(1, 6);
    // (one crowd in three is a big one: 17..40 endpoints, past fixed-size inline tables and the first rehashes)
    const size_t nNodes = crowd ? (r.chance(1, 3) ? 17 + r.below(24) : 5 + r.below(4)) : 1 + r.below(4);
    auto eps = g.pickEndpoints(crowd ? 1 : nNodes);
    if (crowd)
    {
        const bool sameDev = r.chance(2, 3);
        std::set<int> other;
        while (other.size() < nNodes)
            other.insert(static_cast<int>(r.below(sameDev ? 256 : 65536)));
        const auto base = eps[0];
        eps.clear();
        for (int o : other)
            eps.emplace_back(sameDev ? base.first : o, sameDev ? o : base.second);
    }
    std::vector<int> nodeType(nNodes);
    const bool withCm = r.chance(1, 2);
    for (size_t i = 0; i < nNodes; ++i)
    {
        nodeType[i] = (withCm && r.chance(1, 2)) ? 1 : 2;
        Item& n = g.addNode(static_cast<int>(i + 1), nodeType[i], eps[i].first, eps[i].second);
        if (nodeType[i] == 2)
        {
            const int64_t edge = r.pick<int64_t>({0x10000, 0x10000, 0x8000, 0x100, 0x7F00, 0xFF00});
            n.set("ctr0", r.chance(4, 10) ? (edge - 1 - static_cast<int64_t>(r.below(r.chance(1, 2) ? 6 : 40)) + 0x10000) % 0x10000 : static_cast<int64_t>(r.below(65536)));
        }
        // slow links with large gaps produce deep interleavings
        if (r.chance(1, 2))
            n.set("gap", r.pick<int64_t>({5, 17, 40, 100}));
        if (nNodes >= 17)
            n.set("gap", 6000 + static_cast<int64_t>(r.below(3000)));  // everybody is still mid-message when the last one starts
    }
    const int maxSeg = tier ? 300 : (nNodes >= 17 ? 6 : 40);
    const size_t nOpsPerNode = crowd ? 1 + r.below(2) : 1 + r.below(5);
    std::vector<int> order;
    for (size_t i = 0; i < nNodes; ++i)
        for (size_t k = 0; k < nOpsPerNode; ++k)
            order.push_back(static_cast<int>(i));
    for (size_t i = order.size(); i > 1; --i)
        std::swap(order[i - 1], order[r.below(i)]);
    const bool trailingRun = r.chance(1, 2);
    for (int ni : order)
    {
        const int node = ni + 1;
        if (nodeType[ni] == 1)
        {
            // real encoder: a batch with at least one packet that needs segmentation
            int64_t maxB = r.pick<int64_t>({25, 32, 64, 100, 200, 1500});
            int64_t minB = r.chance(1, 2) ? 0 : r.range(0, maxB);
            size_t nMsg = 1 + r.below(4);
            std::vector<Item> msgs;
            int64_t est = 0;
            for (size_t k = 0; k < nMsg; ++k)
            {
                Item m("m");
                g.fillMsg(m, {wire::K_GENERIC, wire::K_ETH, wire::K_CAN, wire::K_ANALOG}, maxB, -1, 30);
                if (k == 0 && m.get("len") <= maxB - 24)
                    m.set("len", (maxB - 24) * r.range(1, 4) + r.range(1, maxB - 24));
                est += m.get("len") / (maxB - 24) + 1;
                msgs.push_back(std::move(m));
            }
            Item& op = g.addOp(OP_ENC, node, est);
            op.set("min", minB).set("max", maxB).set("ver", r.chance(1, 2) ? 1 : r.range(1, 255)).set("mode", static_cast<int64_t>(r.below(4)));
            op.sub = std::move(msgs);
            continue;
        }
        if (r.chance(1, 4))
        {
            // unsegmented traffic of this endpoint between its segmented messages
            Item& op = g.addOp(OP_RAW, node, 1);
            op.set("ver", r.chance(1, 2) ? 1 : r.range(1, 255)).set("mtype", r.pick<int64_t>({1, 1, 3, 2, 0xFF}));
            size_t nm = 1 + r.below(3);
            for (size_t k = 0; k < nm; ++k)
            {
                Item m("m");
                m.set("kind", 0).set("ptype", 0x20).set("len", r.range(1, 80)).set("id", g.msgId());
                m.set("ts", static_cast<int64_t>(g.pickTs())).set("ifid", static_cast<int64_t>(r.below(1000))).set("flags", g.pickFlags());
                op.sub.push_back(std::move(m));
            }
            continue;
        }
        // one segmented message
        int nseg;
        switch (r.below(6))
        {
            case 0:
                nseg = 2;
                break;
            case 1:
                nseg = 3;
                break;
            case 2:
                nseg = static_cast<int>((tier ? r.chance(1, 3) : r.chance(1, 12)) ? r.range(254, 258) : r.range(2, maxSeg));
                break;
            default:
                nseg = static_cast<int>(r.range(2, 8));
                break;
        }
        std::vector<Item> segs;
        int64_t total = 0;
        int sizeClass = static_cast<int>(r.below(6));
        const int64_t fill = r.pick<int64_t>({1, 8, 76, 1476, 40, 255, 256});
        const int64_t targetTotal = r.pick<int64_t>({32767, 32768, 32769, 65534, 65535, 255, 256, 4096});
        if (sizeClass == 5 && nseg > 40)
            sizeClass = 0;
        for (int k = 0; k < nseg; ++k)
        {
            Item s("s");
            int64_t len;
            switch (sizeClass)
            {
                case 0:
                    len = fill;
                    break;  // equal
                case 1:
                    len = r.chance(1, 4) ? 0 : r.range(0, 30);
                    break;  // small, zero-length ones included
                case 2:
                    len = k + 1 == nseg ? r.range(0, fill) : fill;
                    break;  // frame filling then a rest
                case 3:
                    len = r.logRange(0, 4000);
                    break;  // unequal
                case 5:
                    // the total lands exactly on a 15/16-bit boundary
                    len = k + 1 == nseg ? targetTotal - total : std::min<int64_t>(targetTotal - total, r.range(0, 2 * targetTotal / nseg));
                    break;
                default:
                    len = r.range(0, 3);
                    break;
            }
            if (total + len > 65535)
                len = 65535 - total;
            total += len;
            s.set("len", len);
            if (trailingRun && r.chance(1, 2))
                s.set("trail", r.pick<int64_t>({1, 2, 15, 16, 17, 40, 64})).set("tfill", static_cast<int64_t>(r.below(2)));
            if (trailingRun && r.chance(1, 6))
            {
                // trailing bytes that are well-formed messages, starting right behind the segment, after random filler, or
                // exactly as far behind it as the earlier segments are long (where a receiver that "advances by the
                // reassembled length" would look)
                const int64_t tpad = r.chance(1, 2) ? total - len : (r.chance(1, 2) ? 0 : r.range(0, 60));
                s.set("tfill", 2).set("tpad", std::max<int64_t>(0, tpad)).set("trail", std::min<int64_t>(1900, std::max<int64_t>(0, tpad) + r.range(20, 120)));
            }
            if (k > 0 && r.chance(1, 2))
                s.set("alt", r.range(1, 255));
            if (k == 0 && r.chance(1, 10))
                s.set("lead", r.range(1, 3));  // unsegmented messages in front of the first segment, in its frame
            segs.push_back(std::move(s));
        }
        Item& op = g.addOp(OP_RAWSEG, node, nseg);
        op.set("ver", r.chance(1, 2) ? 1 : (r.chance(1, 4) ? r.pick<int64_t>({0x7F, 0x80, 0xFE, 0xFF}) : r.range(1, 255)));
        int kindSel = static_cast<int>(r.below(6));
        if (kindSel == 0)
            op.set("mtype", 3).set("ptype", r.pick<int64_t>({3, 4, 0xFF}));
        else if (kindSel == 1)
            op.set("mtype", r.pick<int64_t>({2, 0xFF, 0x7F})).set("ptype", r.range(1, 255));
        else
            op.set("mtype", 1).set("ptype", r.pick<int64_t>({0x20, 4, 9, 0xFF, 0x0B}));
        op.set("id", g.msgId()).set("ts", static_cast<int64_t>(g.pickTs())).set("ifid", static_cast<int64_t>(r.next() & 0xFFFFFFFF));
        op.set("flags", g.pickFlags());
        op.sub = std::move(segs);
    }
    return g.finish();
}

}  // namespace sim
