// models.h -- reference models and oracles' building blocks. Includes wire.h and adapter.h's
// plain structs only; never a library header.
#pragma once
#include <algorithm>
#include <cstdint>
#include <map>
#include <set>
#include <string>
#include <vector>

#include "adapter.h"
#include "wire.h"

namespace model
{

using Bytes = std::vector<uint8_t>;

// ----------------------------------------------------------------------------------------------
// A packet the receiver is expected to hand out.
struct ExpPacket
{
    uint16_t dev{0};
    uint8_t stream{0};
    uint8_t version{0};
    uint8_t mtype{0};
    uint8_t ptype{0};
    uint64_t ts{0};
    uint32_t id32{0};
    uint8_t flags{0};  // compared with the segmentation bits masked out
    Bytes payload;
    wire::Validity validity{wire::MUST_VALID};
    uint32_t msgId{0};  // logical message id when known (diagnostics)
};

inline std::string hex(uint64_t v)
{
    char b[32];
    snprintf(b, sizeof b, "0x%llx", static_cast<unsigned long long>(v));
    return b;
}

// Compare an observed packet with an expected one. Returns "" or a short rule suffix
// ("field.timestamp", "payload-bytes", "validity.must-valid", ...), detail in *why.
inline std::string comparePacket(const ExpPacket& e, const lib::Obs& o, std::string* why, bool checkValidity = true)
{
    auto fail = [&](const char* rule, const std::string& d)
    {
        if (why)
            *why = d;
        return std::string(rule);
    };
    if (!o.hasPayload)
        return fail("null-payload", "packet without payload object");
    if (o.dev != e.dev)
        return fail("field.device", "device got " + hex(o.dev) + " want " + hex(e.dev));
    if (o.stream != e.stream)
        return fail("field.stream", "stream got " + hex(o.stream) + " want " + hex(e.stream));
    if (o.version != e.version)
        return fail("field.version", "version got " + hex(o.version) + " want " + hex(e.version));
    if (o.ts != e.ts)
        return fail("field.timestamp", "timestamp got " + hex(o.ts) + " want " + hex(e.ts));
    switch (wire::idKindOf(e.mtype))
    {
        case wire::ID_INTERFACE:
            if (o.ifid != e.id32)
                return fail("field.interface-id", "interface id got " + hex(o.ifid) + " want " + hex(e.id32));
            break;
        case wire::ID_VENDOR:
            if (o.vendor != static_cast<uint16_t>(e.id32))
                return fail("field.vendor-id", "vendor id got " + hex(o.vendor) + " want " + hex(e.id32 & 0xFFFF));
            break;
        default:
            break;
    }
    if ((o.flags & ~wire::SEG_MASK) != (e.flags & ~wire::SEG_MASK))
        return fail("field.flags", "flags got " + hex(o.flags) + " want " + hex(e.flags));
    {
        static const uint8_t masks[6] = {0x01, 0x02, 0x0C, 0x10, 0x20, 0x40};
        for (int i = 0; i < 6; ++i)
            if ((((o.flagQuery >> i) & 1) != 0) != ((o.flags & masks[i]) != 0))
                return fail("field.flags", "getCommonFlag(" + hex(masks[i]) + ") disagrees with getCommonFlags() = " + hex(o.flags));
    }
    if (o.plen != e.payload.size())
        return fail("field.length", "payload length got " + std::to_string(o.plen) + " want " + std::to_string(e.payload.size()));
    if (o.payload.size() != e.payload.size())
        return fail("field.length", "raw payload size got " + std::to_string(o.payload.size()) + " want " + std::to_string(e.payload.size()));
    if (checkValidity)
    {
        if (e.validity == wire::MUST_VALID && !o.valid)
            return fail("validity.must-valid", "well-formed payload returned as invalid (mtype " + hex(e.mtype) + " ptype " + hex(e.ptype) + ")");
        if (e.validity == wire::MUST_INVALID && o.valid)
            return fail("validity.must-invalid", "inconsistent payload returned as valid (mtype " + hex(e.mtype) + " ptype " + hex(e.ptype) + ")");
    }
    if (o.valid)
    {
        // a packet handed out as valid must report what is on the wire
        if (o.mtype != e.mtype)
            return fail("field.message-type", "message type got " + hex(o.mtype) + " want " + hex(e.mtype));
        if (o.ptype != e.ptype)
            return fail("field.payload-type", "payload type got " + hex(o.ptype) + " want " + hex(e.ptype));
        if (o.payload != e.payload)
        {
            size_t i = 0;
            while (i < e.payload.size() && o.payload[i] == e.payload[i])
                ++i;
            return fail("payload-bytes",
                        "payload differs at byte " + std::to_string(i) + " of " + std::to_string(e.payload.size()) + ": got " +
                            hex(o.payload[i]) + " want " + hex(e.payload[i]));
        }
        // the serialised header images (Packet::getRawCmpHeader / getRawMessageHeader) are the big-endian wire
        // headers of exactly these values, reserved bytes zero
        if (o.rawCmpHeader.size() == wire::CMP_HDR && o.rawMsgHeader.size() == wire::MSG_HDR)
        {
            uint8_t c[wire::CMP_HDR] = {0}, m[wire::MSG_HDR] = {0};
            c[0] = e.version;
            wire::wr16(c + 2, e.dev);
            c[4] = e.mtype;
            c[5] = e.stream;
            wire::wr16(c + 6, o.seq);
            for (int k = 0; k < 8; ++k)
                m[k] = static_cast<uint8_t>(e.ts >> (56 - 8 * k));
            if (wire::idKindOf(e.mtype) == wire::ID_INTERFACE)
                wire::wr32(m + 8, e.id32);
            else if (wire::idKindOf(e.mtype) == wire::ID_VENDOR)
                wire::wr16(m + 10, static_cast<uint16_t>(e.id32));
            m[12] = o.flags;
            m[13] = e.ptype;
            wire::wr16(m + 14, static_cast<uint16_t>(e.payload.size()));
            for (size_t k = 0; k < wire::CMP_HDR; ++k)
                if (o.rawCmpHeader[k] != c[k])
                    return fail("field.raw-image", "raw CMP header image byte " + std::to_string(k) + " got " + hex(o.rawCmpHeader[k]) + " want " + hex(c[k]));
            for (size_t k = 0; k < wire::MSG_HDR; ++k)
                if (o.rawMsgHeader[k] != m[k])
                    return fail("field.raw-image", "raw message header image byte " + std::to_string(k) + " got " + hex(o.rawMsgHeader[k]) + " want " + hex(m[k]));
        }
    }
    return "";
}

// ----------------------------------------------------------------------------------------------
// RefTecmp: expected packets for a TECMP buffer (C15), from wire.h only.
struct TecmpExp
{
    enum Kind
    {
        NONE,
        CAN,
        LIN,
        CM,
        BUS
    } kind{NONE};
    uint16_t dev{0};
    uint64_t ts{0};
    uint32_t ifid{0};
    // CAN / LIN
    uint32_t id{0};
    Bytes data;
    bool hasChecksum{false};
    uint8_t checksum{0};
    // CM
    std::string serial, hw, sw;
    // BUS entry
    uint32_t msgTotal{0}, errTotal{0};
};

struct TecmpExpect
{
    bool unspecified{false};  // layout outside what C15 pins down: only "returns normally" is demanded
    std::vector<TecmpExp> pk;
};

inline TecmpExpect refTecmp(const uint8_t* p, size_t n)
{
    TecmpExpect r;
    if (n < wire::TECMP_HDR)
        return r;
    wire::TecmpHdr h = wire::parseTecmpHdr(p);
    if (h.plen == 0)
        return r;
    if (n < wire::TECMP_HDR + h.plen)
        return r;  // declared payload does not fit the buffer
    const bool exact = (n == wire::TECMP_HDR + h.plen);
    if (!exact)
    {
        // bytes behind the declared payload: whether they count as payload is not pinned down by C15
        // (the library's own test frames carry such bytes) -> only "returns normally" is demanded
        r.unspecified = true;
        return r;
    }
    const uint8_t* q = p + wire::TECMP_HDR;
    const size_t ps = h.plen;
    TecmpExp base;
    base.dev = h.dev;
    base.ts = h.ts;
    base.ifid = h.ifid;
    if (h.mtype == wire::TMT_DATA)
    {
        if (h.dtype == wire::TDT_CAN || h.dtype == wire::TDT_CANFD)
        {
            if (ps < wire::TECMP_CAN_FIXED)
                return r;
            size_t len = q[4];
            if (wire::TECMP_CAN_FIXED + len > ps)
                return r;  // inner length does not fit
            if (!exact || len > 64)
            {
                r.unspecified = true;
                return r;
            }
            base.kind = TecmpExp::CAN;
            base.id = wire::rd32(q) & 0x1FFFFFFF;
            base.data.assign(q + 5, q + 5 + len);
            r.pk.push_back(base);
            return r;
        }
        if (h.dtype == wire::TDT_LIN)
        {
            if (ps < wire::TECMP_LIN_FIXED)
                return r;
            size_t len = q[1];
            if (wire::TECMP_LIN_FIXED + len > ps)
                return r;
            if (!exact)
            {
                r.unspecified = true;
                return r;
            }
            base.kind = TecmpExp::LIN;
            base.id = q[0] & 0x3F;
            base.data.assign(q + 2, q + 2 + len);
            if (ps > wire::TECMP_LIN_FIXED + len)
            {
                base.hasChecksum = true;
                base.checksum = q[2 + len];
            }
            r.pk.push_back(base);
            return r;
        }
        return r;  // unsupported data type
    }
    if ((h.mtype == wire::TMT_CMSTATUS || h.mtype == wire::TMT_BUSSTATUS) && h.dtype != 0)
    {
        // status messages carry data type 0; what a decoder does with another value (the library treats
        // one of them as its "invalid" marker) is not pinned down by C15
        r.unspecified = true;
        return r;
    }
    if (h.mtype == wire::TMT_CMSTATUS)
    {
        if (!exact)
        {
            r.unspecified = true;
            return r;
        }
        if (ps < wire::TECMP_CM_FIXED)
        {
            // shorter than the fixed part: either no packet or (legacy behaviour for >= 18 bytes) a packet
            // from the bytes that are present. C15 does not pin this down; only "no crash" is demanded.
            r.unspecified = true;
            return r;
        }
        base.kind = TecmpExp::CM;
        base.serial = std::to_string(wire::rd32(q + 8));
        base.sw = "v" + std::to_string(q[13]) + "." + std::to_string(q[14]) + "." + std::to_string(q[15]);
        base.hw = "v" + std::to_string(q[16]) + "." + std::to_string(q[17]);
        r.pk.push_back(base);
        return r;
    }
    if (h.mtype == wire::TMT_BUSSTATUS)
    {
        if (ps < wire::TECMP_BUS_GENERIC)
            return r;
        if (!exact)
        {
            r.unspecified = true;
            return r;
        }
        size_t entries = (ps - wire::TECMP_BUS_GENERIC) / wire::TECMP_BUS_ENTRY;
        for (size_t i = 0; i < entries; ++i)
        {
            const uint8_t* e = q + wire::TECMP_BUS_GENERIC + i * wire::TECMP_BUS_ENTRY;
            TecmpExp x = base;
            x.kind = TecmpExp::BUS;
            x.ifid = wire::rd32(e);
            x.msgTotal = wire::rd32(e + 4);
            x.errTotal = wire::rd32(e + 8);
            r.pk.push_back(x);
        }
        return r;
    }
    return r;  // unsupported message type
}

inline std::string compareTecmp(const TecmpExp& e, const lib::Obs& o, std::string* why)
{
    auto fail = [&](const char* rule, const std::string& d)
    {
        if (why)
            *why = d;
        return std::string(rule);
    };
    if (!o.hasPayload)
        return fail("null-payload", "packet without payload");
    if (!o.valid)
        return fail("field.valid", "converted packet is not valid");
    if (o.dev != e.dev)
        return fail("field.device", "device got " + hex(o.dev) + " want " + hex(e.dev));
    if (o.ts != e.ts)
        return fail("field.timestamp", "timestamp got " + hex(o.ts) + " want " + hex(e.ts));
    if (o.ifid != e.ifid)
        return fail("field.interface-id", "interface id got " + hex(o.ifid) + " want " + hex(e.ifid));
    const lib::Typed& t = o.typed;
    switch (e.kind)
    {
        case TecmpExp::CAN:
        {
            if (!(o.mtype == wire::MT_DATA && (o.ptype == 1 || o.ptype == 2)))
                return fail("field.kind", "expected CAN / CAN-FD data packet, got mtype " + hex(o.mtype) + " ptype " + hex(o.ptype));
            if (t.id != e.id)
                return fail("field.can-id", "arbitration id got " + hex(t.id) + " want " + hex(e.id));
            if (t.dataLen != e.data.size())
                return fail("field.data-length", "data length got " + std::to_string(t.dataLen) + " want " + std::to_string(e.data.size()));
            break;
        }
        case TecmpExp::LIN:
        {
            if (!(o.mtype == wire::MT_DATA && o.ptype == 3))
                return fail("field.kind", "expected LIN data packet");
            if (t.linId != e.id)
                return fail("field.lin-id", "LIN id got " + hex(t.linId) + " want " + hex(e.id));
            if (t.dataLen != e.data.size())
                return fail("field.data-length", "data length got " + std::to_string(t.dataLen) + " want " + std::to_string(e.data.size()));
            if (e.hasChecksum && t.checksum != e.checksum)
                return fail("field.checksum", "checksum got " + hex(t.checksum) + " want " + hex(e.checksum));
            break;
        }
        case TecmpExp::CM:
        {
            if (!(o.mtype == wire::MT_STATUS && o.ptype == 1))
                return fail("field.kind", "expected capture-module status packet");
            if (t.strVal[1] != e.serial)
                return fail("field.serial", "serial got '" + t.strVal[1] + "' want '" + e.serial + "'");
            if (t.strVal[2] != e.hw)
                return fail("field.hw-version", "hw version got '" + t.strVal[2] + "' want '" + e.hw + "'");
            if (t.strVal[3] != e.sw)
                return fail("field.sw-version", "sw version got '" + t.strVal[3] + "' want '" + e.sw + "'");
            break;
        }
        case TecmpExp::BUS:
        {
            if (!(o.mtype == wire::MT_STATUS && o.ptype == 2))
                return fail("field.kind", "expected interface status packet");
            if (t.ifId != e.ifid)
                return fail("field.if-id", "payload interface id got " + hex(t.ifId) + " want " + hex(e.ifid));
            if (t.msgTotalRx != e.msgTotal)
                return fail("field.msg-total", "messages total got " + hex(t.msgTotalRx) + " want " + hex(e.msgTotal));
            if (t.errTotalRx != e.errTotal)
                return fail("field.err-total", "errors total got " + hex(t.errTotalRx) + " want " + hex(e.errTotal));
            break;
        }
        default:
            break;
    }
    if (e.kind == TecmpExp::CAN || e.kind == TecmpExp::LIN)
    {
        // data bytes through the reported view
        if (!e.data.empty())
        {
            if (t.data.off < 0 || static_cast<size_t>(t.data.off) + e.data.size() > o.payload.size())
                return fail("field.data", "data view outside payload");
            if (!std::equal(e.data.begin(), e.data.end(), o.payload.begin() + t.data.off))
                return fail("field.data", "data bytes differ");
        }
    }
    return "";
}

// ----------------------------------------------------------------------------------------------
// RefDecoder: per endpoint {closed | open}. For every delivered buffer it computes the packets
// that must come out, from the bytes alone.
struct Endpoint
{
    uint16_t dev;
    uint8_t stream;
    bool operator<(const Endpoint& o) const
    {
        return dev != o.dev ? dev < o.dev : stream < o.stream;
    }
    bool operator==(const Endpoint& o) const
    {
        return dev == o.dev && stream == o.stream;
    }
    uint32_t key() const
    {
        return (static_cast<uint32_t>(dev) << 8) | stream;
    }
};

struct OpenMsg
{
    bool open{false};
    bool unknown{false};  // behaviour not pinned down by the properties until the next state-independent frame
    uint8_t version{0};
    uint8_t mtype{0};
    uint16_t lastCtr{0};
    wire::MsgHdr first;
    Bytes payload;
    uint64_t segBytes{0};  // sum over segments of (16 + declared length): C17's byte bound
    bool wrapped{false};
    bool hadTrailing{false};
    bool hadZeroLen{false};
    int segments{0};
};

struct Expect
{
    bool cmp{false};           // the buffer was a CMP frame (>= 8 bytes, version != 0)
    bool tecmp{false};
    Endpoint ep{0, 0};
    std::vector<ExpPacket> pk;
    bool prefixOnly{false};    // more packets than listed are tolerated (tail unspecified)
    bool unknown{false};       // nothing is demanded about this call's output
    TecmpExpect tecmpExp;
    // probes
    bool deliveredSegmented{false};
    bool wrapInside{false};
    bool zeroLenSegment{false};
    bool trailingAfterSegment{false};
    bool orphanSegment{false};
    bool abortedOpen{false};
    bool supersededOpen{false};
    bool dupFirstWhileOpen{false};
    bool msgHadTrailing{false};  // some segment of the message delivered now was followed by extra bytes in its frame
    bool msgHadZeroLen{false};
    bool lastSegmentSeen{false};  // this frame carried a last segment
};

class RefDecoder
{
public:
    std::map<Endpoint, OpenMsg> st;

    // endpoints that must be pending / whose pending status is unspecified
    void pendingSets(std::set<Endpoint>& must, std::set<Endpoint>& either) const
    {
        for (auto& kv : st)
        {
            if (kv.second.unknown)
                either.insert(kv.first);
            else if (kv.second.open)
                must.insert(kv.first);
        }
    }
    uint64_t boundFor(const Endpoint& e) const
    {
        auto it = st.find(e);
        return it == st.end() ? 0 : it->second.segBytes;
    }

    uint64_t stateHash() const
    {
        uint64_t h = 1469598103934665603ULL;
        for (auto& kv : st)
        {
            if (!kv.second.open && !kv.second.unknown)
                continue;
            h = (h ^ kv.first.key()) * 1099511628211ULL;
            h = (h ^ (kv.second.unknown ? 2 : 1)) * 1099511628211ULL;
            h = (h ^ kv.second.payload.size()) * 1099511628211ULL;
            h = (h ^ kv.second.lastCtr) * 1099511628211ULL;
        }
        return h;
    }

    void reset()
    {
        st.clear();
    }

    Expect feed(const uint8_t* p, size_t n)
    {
        Expect ex;
        if (p == nullptr || n < wire::CMP_HDR)
            return ex;
        if (p[0] == 0)
        {
            ex.tecmp = true;
            ex.tecmpExp = refTecmp(p, n);
            return ex;
        }
        ex.cmp = true;
        wire::CmpHdr h = wire::parseCmpHdr(p);
        ex.ep = Endpoint{h.dev, h.stream};
        OpenMsg& s = st[ex.ep];
        size_t pos = wire::CMP_HDR;
        if (n == wire::CMP_HDR)
        {
            // a frame without any message: neither opens nor continues anything. What happens to an open
            // reassembly is not pinned down (section 4.5) -> unknown until the next state-independent frame.
            if (s.open || s.unknown)
            {
                s.unknown = true;
                s.open = false;
            }
            ex.unknown = s.unknown;
            return ex;
        }
        bool first = true;
        while (n > pos)
        {
            const size_t left = n - pos;
            bool acceptable = left >= wire::MSG_HDR;
            wire::MsgHdr m;
            bool errFlagOnly = false;
            if (acceptable)
            {
                m = wire::parseMsgHdr(p + pos);
                if (static_cast<size_t>(m.plen) > left - wire::MSG_HDR)
                    acceptable = false;
                else if (m.ptype == 0)
                    acceptable = false;
                else if (m.flags & wire::FLAG_ERR_IN_PAYLOAD)
                {
                    acceptable = false;
                    errFlagOnly = true;
                }
            }
            if (!acceptable)
            {
                if (s.open)
                    ex.abortedOpen = true;
                s = OpenMsg();
                if (errFlagOnly)
                    ex.prefixOnly = true;  // whether messages behind a flagged one are still delivered is unspecified
                return ex;
            }
            const uint8_t seg = m.seg();
            const uint8_t* body = p + pos + wire::MSG_HDR;
            if (seg == wire::SEG_NONE)
            {
                if (s.open)
                    ex.abortedOpen = true;
                s = OpenMsg();
                ExpPacket e;
                e.dev = h.dev;
                e.stream = h.stream;
                e.version = h.version;
                e.mtype = h.mtype;
                e.ptype = m.ptype;
                e.ts = m.ts;
                e.id32 = m.id32;
                e.flags = m.flags;
                e.payload.assign(body, body + m.plen);
                e.validity = wire::classify(h.mtype, m.ptype, body, m.plen);
                ex.pk.push_back(std::move(e));
                pos += wire::MSG_HDR + m.plen;
                first = false;
                continue;
            }
            // a segment: it is alone in its frame as far as the receiver is concerned
            if (left > wire::MSG_HDR + m.plen)
                ex.trailingAfterSegment = true;
            if (m.plen == 0)
                ex.zeroLenSegment = true;
            const bool trailingHere = left > wire::MSG_HDR + m.plen;
            if (seg == wire::SEG_LAST)
                ex.lastSegmentSeen = true;
            if (seg == wire::SEG_FIRST)
            {
                if (s.open)
                {
                    ex.supersededOpen = true;
                    ex.dupFirstWhileOpen = true;
                }
                s = OpenMsg();
                s.open = true;
                s.hadTrailing = trailingHere;
                s.hadZeroLen = m.plen == 0;
                s.version = h.version;
                s.mtype = h.mtype;
                s.lastCtr = h.ctr;
                s.first = m;
                s.payload.assign(body, body + m.plen);
                s.segBytes = wire::MSG_HDR + m.plen;
                s.segments = 1;
                return ex;
            }
            // intermediary or last
            if (s.unknown)
            {
                // continuation of something whose fate is unspecified
                ex.unknown = true;
                // unsegmented messages decoded before it in this frame are still demanded
                ex.prefixOnly = true;
                if (seg == wire::SEG_LAST)
                    s = OpenMsg();  // whatever it was, it is over now
                return ex;
            }
            if (!s.open)
            {
                ex.orphanSegment = true;
                s = OpenMsg();
                return ex;
            }
            const bool matches = s.version == h.version && s.mtype == h.mtype && h.ctr == static_cast<uint16_t>(s.lastCtr + 1);
            if (!matches)
            {
                ex.abortedOpen = true;
                s = OpenMsg();
                return ex;
            }
            if (h.ctr == 0)
                s.wrapped = true;
            if (trailingHere)
                s.hadTrailing = true;
            if (m.plen == 0)
                s.hadZeroLen = true;
            s.payload.insert(s.payload.end(), body, body + m.plen);
            s.segBytes += wire::MSG_HDR + m.plen;
            s.lastCtr = h.ctr;
            s.segments++;
            if (s.payload.size() > 65535)
            {
                // total beyond what a 16-bit payload length can describe: unspecified (section 4.5)
                s.unknown = true;
                s.open = false;
                ex.unknown = true;
                ex.prefixOnly = true;
                if (seg == wire::SEG_LAST)
                    s = OpenMsg();
                return ex;
            }
            if (seg == wire::SEG_LAST)
            {
                ExpPacket e;
                e.dev = h.dev;
                e.stream = h.stream;
                e.version = s.version;
                e.mtype = s.mtype;
                e.ptype = s.first.ptype;
                e.ts = s.first.ts;
                e.id32 = s.first.id32;
                e.flags = s.first.flags;
                e.payload = std::move(s.payload);
                e.validity = wire::classify(e.mtype, e.ptype, e.payload.data(), e.payload.size());
                ex.deliveredSegmented = true;
                ex.wrapInside = s.wrapped;
                ex.msgHadTrailing = s.hadTrailing;
                ex.msgHadZeroLen = s.hadZeroLen;
                ex.pk.push_back(std::move(e));
                s = OpenMsg();
            }
            (void) first;
            return ex;
        }
        return ex;
    }
};

// ----------------------------------------------------------------------------------------------
// Sender side: frame walker (C07), packing rules and reference packer (C08), counter (C09)
struct BatchMsg
{
    uint8_t mtype{1};
    uint8_t ptype{1};
    uint8_t version{1};
    uint64_t ts{0};
    uint32_t id32{0};
    uint8_t flags{0};
    Bytes payload;
    uint32_t msgId{0};
};

struct WalkedMsg
{
    int frame;
    size_t off;
    wire::MsgHdr h;
    size_t payloadOff;
};

struct PackedMsg
{
    int pkt;       // index into the batch
    uint8_t seg;   // wire::SEG_*
    uint32_t len;  // payload bytes in this message
    bool operator==(const PackedMsg& o) const
    {
        return pkt == o.pkt && seg == o.seg && len == o.len;
    }
};
using PackedFrame = std::vector<PackedMsg>;

// the greedy packing the property text determines completely
inline std::vector<PackedFrame> refPack(const std::vector<BatchMsg>& batch, size_t maxBytes)
{
    std::vector<PackedFrame> frames;
    bool curOpen = false;
    uint8_t curType = 0;
    size_t curFree = 0;
    const size_t cap = maxBytes - wire::CMP_HDR;  // room for messages in an empty frame
    for (size_t i = 0; i < batch.size(); ++i)
    {
        const size_t L = batch[i].payload.size();
        const size_t need = wire::MSG_HDR + L;
        if (need > cap)
        {
            size_t remaining = L;
            bool first = true;
            const size_t per = cap - wire::MSG_HDR;
            while (remaining > 0)
            {
                size_t take = std::min(per, remaining);
                uint8_t seg = first ? wire::SEG_FIRST : (remaining == take ? wire::SEG_LAST : wire::SEG_MID);
                frames.push_back(PackedFrame{PackedMsg{static_cast<int>(i), seg, static_cast<uint32_t>(take)}});
                remaining -= take;
                first = false;
            }
            curOpen = false;
        }
        else
        {
            if (curOpen && curType == batch[i].mtype && curFree >= need)
            {
                frames.back().push_back(PackedMsg{static_cast<int>(i), wire::SEG_NONE, static_cast<uint32_t>(L)});
                curFree -= need;
            }
            else
            {
                frames.push_back(PackedFrame{PackedMsg{static_cast<int>(i), wire::SEG_NONE, static_cast<uint32_t>(L)}});
                curOpen = true;
                curType = batch[i].mtype;
                curFree = cap - need;
            }
        }
    }
    return frames;
}

struct SenderVerdict
{
    std::string rule;  // "" = fine, else e.g. "walker.no-message"
    std::string detail;
    bool ok() const
    {
        return rule.empty();
    }
};

// result of walking all frames of one encode call
struct Walked
{
    bool parsed{false};                      // frames tile cleanly, chains are well-formed, mapping to the batch exists
    std::vector<std::vector<PackedMsg>> structure;  // per non-empty frame (only valid if parsed)
    std::vector<int> frameOfCompletion;      // per batch packet: frame index in which its last byte travels (-1 unknown)
    std::vector<std::vector<int>> framesOfPacket;  // per batch packet: all frames carrying a piece of it
    int headerOnlyFrames{0};
};

// C07: every frame well-formed and within bounds; every payload byte once and in order.
inline SenderVerdict walkFrames(const std::vector<Bytes>& frames, const std::vector<BatchMsg>& batch, size_t minB, size_t maxB, Walked& w)
{
    SenderVerdict v;
    auto fail = [&](const char* r, const std::string& d)
    {
        if (v.rule.empty())
        {
            v.rule = r;
            v.detail = d;
        }
    };
    w = Walked();
    w.frameOfCompletion.assign(batch.size(), -1);
    w.framesOfPacket.assign(batch.size(), {});
    if (batch.empty())
    {
        if (!frames.empty())
            fail("walker.empty-batch", "empty batch produced " + std::to_string(frames.size()) + " frame(s)");
        w.parsed = frames.empty();
        return v;
    }
    bool tilingOk = true;
    std::vector<WalkedMsg> msgs;
    for (size_t f = 0; f < frames.size(); ++f)
    {
        const Bytes& fr = frames[f];
        if (fr.size() < minB || fr.size() > maxB)
            fail("walker.size-range",
                 "frame " + std::to_string(f) + " has " + std::to_string(fr.size()) + " bytes, allowed " + std::to_string(minB) + ".." +
                     std::to_string(maxB));
        if (fr.size() < wire::CMP_HDR)
        {
            fail("walker.tiling", "frame " + std::to_string(f) + " shorter than a CMP header");
            tilingOk = false;
            continue;
        }
        wire::FrameParse fp = wire::parseFrame(fr.data(), fr.size());
        if (fp.msgs.empty())
        {
            w.headerOnlyFrames++;
            fail("walker.no-message", "frame " + std::to_string(f) + " (" + std::to_string(fr.size()) + " bytes) carries no complete message");
        }
        bool restZero = true;
        for (size_t i = fp.used; i < fr.size(); ++i)
            if (fr[i] != 0)
            {
                restZero = false;
                break;
            }
        if (!restZero)
        {
            fail("walker.tiling",
                 "frame " + std::to_string(f) + ": bytes behind the last complete message (offset " + std::to_string(fp.used) +
                     ") are neither a message nor zero padding");
            tilingOk = false;
        }
        else
        {
            const size_t want = std::max(fp.used, minB);
            if (fr.size() != want)
                fail("walker.padding",
                     "frame " + std::to_string(f) + ": " + std::to_string(fr.size()) + " bytes, messages end at " + std::to_string(fp.used) +
                         ", minimum " + std::to_string(minB) + " -> expected " + std::to_string(want));
        }
        for (auto& m : fp.msgs)
            msgs.push_back(WalkedMsg{static_cast<int>(f), m.off, m.h, m.payloadOff()});
    }
    // every payload byte exactly once and in order: group messages into packets
    size_t pkt = 0;
    size_t posInPkt = 0;
    bool inChain = false;
    bool mapOk = tilingOk;
    std::vector<std::vector<PackedMsg>> structure(frames.size());
    for (size_t k = 0; k < msgs.size() && mapOk; ++k)
    {
        const WalkedMsg& m = msgs[k];
        const uint8_t seg = m.h.seg();
        if (pkt >= batch.size())
        {
            fail("walker.bytes-once", "more messages on the wire than packets in the batch");
            mapOk = false;
            break;
        }
        // (outside C07's own domain: a packet with an EMPTY payload may legitimately have produced no message at all - it has no
        // byte to lose; the mapping then goes on with the next packet)
        while (posInPkt == 0 && m.h.plen != 0 && pkt < batch.size() && batch[pkt].payload.empty())
            ++pkt;
        if (pkt >= batch.size())
        {
            fail("walker.bytes-once", "more messages on the wire than packets in the batch");
            mapOk = false;
            break;
        }
        // the mapping of messages to packets follows the BYTES (C07); whether the segment bits are the right ones is C08's rule
        const Bytes& want = batch[pkt].payload;
        const Bytes& fr = frames[m.frame];
        if (posInPkt + m.h.plen > want.size() || !std::equal(fr.begin() + m.payloadOff, fr.begin() + m.payloadOff + m.h.plen, want.begin() + posInPkt))
        {
            size_t i = 0;
            while (posInPkt + i < want.size() && i < m.h.plen && fr[m.payloadOff + i] == want[posInPkt + i])
                ++i;
            fail("walker.bytes-once",
                 "packet " + std::to_string(pkt) + " (" + std::to_string(want.size()) + " bytes): wire bytes at packet offset " +
                     std::to_string(posInPkt + i) + " (frame " + std::to_string(m.frame) + ") differ from the payload or exceed it");
            mapOk = false;
            break;
        }
        structure[m.frame].push_back(PackedMsg{static_cast<int>(pkt), seg, m.h.plen});
        if (w.framesOfPacket[pkt].empty() || w.framesOfPacket[pkt].back() != m.frame)
            w.framesOfPacket[pkt].push_back(m.frame);
        posInPkt += m.h.plen;
        if (posInPkt == want.size())
        {
            w.frameOfCompletion[pkt] = m.frame;
            ++pkt;
            posInPkt = 0;
            inChain = false;
        }
        else
            inChain = true;
    }
    while (mapOk && !inChain && pkt < batch.size() && batch[pkt].payload.empty())
        ++pkt;  // (trailing packets with an empty payload that produced no message)
    if (mapOk && (pkt != batch.size() || inChain))
    {
        fail("walker.bytes-once", "only " + std::to_string(pkt) + " of " + std::to_string(batch.size()) + " packets are complete on the wire");
        mapOk = false;
    }
    if (mapOk)
    {
        w.parsed = true;
        for (auto& s : structure)
            if (!s.empty())
                w.structure.push_back(s);
    }
    return v;
}

// C08: rules + structural equality with the reference packer. Needs a parsed walk.
inline SenderVerdict checkPacking(const std::vector<Bytes>& frames, const std::vector<BatchMsg>& batch, size_t maxB, const Walked& w)
{
    SenderVerdict v;
    auto fail = [&](const char* r, const std::string& d)
    {
        if (v.rule.empty())
        {
            v.rule = r;
            v.detail = d;
        }
    };
    if (!w.parsed)
        return v;  // C07's business
    const size_t cap = maxB - wire::CMP_HDR;
    // per-packet rules
    std::vector<std::vector<std::pair<int, PackedMsg>>> piecesOf(batch.size());
    int fi = 0;
    // map structure (non-empty frames) back to real frame indices
    std::vector<int> realIndex;
    for (size_t f = 0; f < frames.size(); ++f)
    {
        wire::FrameParse fp = wire::parseFrame(frames[f].data(), frames[f].size());
        if (!fp.msgs.empty())
            realIndex.push_back(static_cast<int>(f));
    }
    for (auto& fr : w.structure)
    {
        for (auto& m : fr)
            piecesOf[m.pkt].push_back({fi, m});
        ++fi;
    }
    for (size_t i = 0; i < batch.size(); ++i)
    {
        const size_t L = batch[i].payload.size();
        const bool mustSegment = wire::MSG_HDR + L > cap;
        auto& pcs = piecesOf[i];
        if (!mustSegment)
        {
            if (pcs.size() != 1 || pcs[0].second.seg != wire::SEG_NONE)
                fail("rule.split-unneeded",
                     "packet " + std::to_string(i) + " (" + std::to_string(L) + " bytes) fits an empty frame of " + std::to_string(maxB) +
                         " but travels in " + std::to_string(pcs.size()) + " piece(s) with segment bits " + hex(pcs.empty() ? 0 : pcs[0].second.seg));
            continue;
        }
        if (pcs.size() < 2)
        {
            fail("rule.segment-flags", "packet " + std::to_string(i) + " needs segmentation but travels in one message");
            continue;
        }
        for (size_t k = 0; k < pcs.size(); ++k)
        {
            const uint8_t want = k == 0 ? wire::SEG_FIRST : (k + 1 == pcs.size() ? wire::SEG_LAST : wire::SEG_MID);
            if (pcs[k].second.seg != want)
                fail("rule.segment-flags",
                     "packet " + std::to_string(i) + " piece " + std::to_string(k) + "/" + std::to_string(pcs.size()) + " has segment bits " +
                         hex(pcs[k].second.seg) + ", expected " + hex(want));
            if (w.structure[pcs[k].first].size() != 1)
                fail("rule.segment-not-alone", "segment " + std::to_string(k) + " of packet " + std::to_string(i) + " shares its frame");
            if (k > 0 && pcs[k].first != pcs[k - 1].first + 1)
                fail("rule.segment-not-alone", "segments of packet " + std::to_string(i) + " are not in consecutive frames");
            if (k + 1 < pcs.size())
            {
                const Bytes& fr = frames[realIndex[pcs[k].first]];
                if (fr.size() != maxB || pcs[k].second.len != cap - wire::MSG_HDR)
                    fail("rule.segment-fill",
                         "segment " + std::to_string(k) + " of packet " + std::to_string(i) + " carries " + std::to_string(pcs[k].second.len) +
                             " bytes in a frame of " + std::to_string(fr.size()) + ", should fill the frame to " + std::to_string(maxB));
            }
        }
    }
    // frame header type = type of all its messages
    fi = 0;
    for (auto& fr : w.structure)
    {
        const Bytes& raw = frames[realIndex[fi]];
        const uint8_t hdrType = raw[4];
        for (auto& m : fr)
            if (batch[m.pkt].mtype != hdrType)
                fail("rule.frame-type",
                     "frame " + std::to_string(realIndex[fi]) + " announces message type " + hex(hdrType) + " but carries packet " +
                         std::to_string(m.pkt) + " of type " + hex(batch[m.pkt].mtype));
        ++fi;
    }
    // structure vs reference packer
    auto ref = refPack(batch, maxB);
    if (v.rule.empty() && !(ref == w.structure))
    {
        std::string d = "frame structure differs from greedy packing: got " + std::to_string(w.structure.size()) + " non-empty frames, want " +
                        std::to_string(ref.size());
        for (size_t f = 0; f < std::min(ref.size(), w.structure.size()); ++f)
            if (!(ref[f] == w.structure[f]))
            {
                d += "; first difference in frame " + std::to_string(f) + ": got " + std::to_string(w.structure[f].size()) + " message(s), want " +
                     std::to_string(ref[f].size());
                break;
            }
        fail("packer.structure", d);
    }
    return v;
}

// ----------------------------------------------------------------------------------------------
// RefStatus (C16)
struct RefStatus
{
    struct Dev
    {
        lib::Obs pkt;
        std::map<uint32_t, lib::Obs> ifs;
    };
    std::map<uint16_t, Dev> devs;

    static bool isCm(const lib::Obs& o)
    {
        return o.hasPayload && o.valid && o.mtype == wire::MT_STATUS && o.ptype == 1;
    }
    static bool isIf(const lib::Obs& o)
    {
        return o.hasPayload && o.valid && o.mtype == wire::MT_STATUS && o.ptype == 2;
    }
    void update(const lib::Obs& o)
    {
        auto it = devs.find(o.dev);
        if (isCm(o))
        {
            if (it == devs.end())
                devs[o.dev].pkt = o;
            else
                it->second.pkt = o;
        }
        else if (isIf(o) && it != devs.end() && o.payload.size() >= 4)
        {
            it->second.ifs[wire::rd32(o.payload.data())] = o;
        }
    }
    void removeDev(uint16_t d)
    {
        devs.erase(d);
    }
    void removeIf(uint16_t d, uint32_t i)
    {
        auto it = devs.find(d);
        if (it != devs.end())
            it->second.ifs.erase(i);
    }
    void clear()
    {
        devs.clear();
    }
};

inline bool sameObs(const lib::Obs& a, const lib::Obs& b, std::string* why)
{
    auto f = [&](const char* w)
    {
        if (why)
            *why = w;
        return false;
    };
    if (a.hasPayload != b.hasPayload)
        return f("payload presence");
    if (a.valid != b.valid)
        return f("validity");
    if (a.version != b.version)
        return f("version");
    if (a.dev != b.dev)
        return f("device id");
    if (a.stream != b.stream)
        return f("stream id");
    if (a.seq != b.seq)
        return f("sequence counter");
    if (a.mtype != b.mtype)
        return f("message type");
    if (a.ptype != b.ptype)
        return f("payload type");
    if (a.ts != b.ts)
        return f("timestamp");
    if (a.ifid != b.ifid)
        return f("interface id");
    if (a.vendor != b.vendor)
        return f("vendor id");
    if (a.flags != b.flags)
        return f("flags");
    if (a.segType != b.segType)
        return f("segment type");
    if (a.plen != b.plen)
        return f("payload length");
    if (a.payload != b.payload)
        return f("payload bytes");
    return true;
}

}  // namespace model
