// gen_common.h -- building blocks shared by the per-property plan generators
#pragma once
#include <unistd.h>
#include <cstdio>
#include <algorithm>
#include <set>
#include <vector>

#include "content.h"
#include "gen.h"
#include "prng.h"
#include "wire.h"
#include "world.h"

namespace sim
{

struct Gen
{
    Rng rng;
    Plan plan;
    int tier;
    uint32_t nextMsgId;
    int64_t clock{0};
    bool bigFrames{false};
    std::vector<int64_t> busyUntil;  // per node id: time until which its link is busy (keeps per-link FIFO)

    Gen(const std::string& prop, int tier_, uint64_t batchSeed, uint64_t idx)
        : rng(runSeed(batchSeed, prop, idx), "plan")
        , tier(tier_)
    {
        plan.prop = prop;
        plan.seed = batchSeed;
        plan.idx = static_cast<int64_t>(idx);
        nextMsgId = static_cast<uint32_t>(mix64(runSeed(batchSeed, prop, idx)) & 0x0FFFFFFF) + 1;
        busyUntil.assign(64, 0);
    }

    // "Derive by tweak": one run in four gets a few operations repeated right behind the original, identical except for
    // ONE small change in ONE field (or no change at all). Caches keyed on too few fields, skip-if-equal shortcuts and
    // idempotence bugs need exactly such near-identical consecutive operations, which independent random draws never produce.
    void tweakPass()
    {
        if (!rng.chance(1, 4))
            return;
        std::vector<size_t> ops;
        for (size_t i = 0; i < plan.items.size(); ++i)
            if (plan.items[i].tag == "op" && plan.items[i].get("k") != OP_RXRESTART && plan.items[i].get("rep", 0) == 0)
                ops.push_back(i);
        if (ops.empty())
            return;
        const size_t n = 1 + rng.below(3);
        std::vector<Item> extra;
        for (size_t q = 0; q < n; ++q)
        {
            Item c = plan.items[ops[rng.below(ops.size())]];
            bool heavy = false;
            for (auto& m : c.sub)
                if (m.get("rep", 0) > 50 || m.get("len", 0) > 20000)
                    heavy = true;
            if (heavy || c.sub.size() > 40)
                continue;
            c.set("t", c.get("t") + 1);
            Item* target = &c;
            if (!c.sub.empty() && rng.chance(2, 3))
                target = &c.sub[rng.below(c.sub.size())];
            if (!target->kv.empty() && rng.chance(4, 5))
            {
                auto& kv = target->kv[rng.below(target->kv.size())];
                // families with honest senders and strict equality oracles only get tweaks that stay inside the property's domain
                const bool honest = plan.prop == "C01" || plan.prop == "C05" || plan.prop == "C06" || plan.prop == "C16";
                static const char* safe[] = {"ts", "ifid", "len", "id", "trail", "alt", "min", "max", "mode", "build", "ver", "pifid", "dev", "what", "val", "stream", "seq"};
                bool isSafe = false;
                for (const char* k : safe)
                    if (kv.first == k)
                        isSafe = true;
                if (kv.first != "k" && kv.first != "node" && kv.first != "t" && kv.first != "type" && kv.first != "kind" && kv.first != "rep" &&
                    kv.first != "cls" && kv.first != "obj" && (!honest || isSafe))
                {
                    switch (rng.below(4))
                    {
                        case 0:
                            kv.second += 1;
                            break;
                        case 1:
                            kv.second = kv.second > 0 ? kv.second - 1 : 0;
                            break;
                        case 2:
                            kv.second ^= (1LL << rng.below(16));
                            break;
                        default:
                            kv.second ^= (1LL << (24 + rng.below(8)));
                            break;
                    }
                }
            }
            extra.push_back(std::move(c));
        }
        for (auto& e : extra)
            plan.items.push_back(std::move(e));
    }

    // "Source literals": one run in five sets 1-3 numeric fields of the finished plan to an integer literal that occurs in the
    // library's sources (or right next to one; for lengths also literal minus the header sizes 8 / 16 / 24). The dictionary
    // is extracted from the tree under test at build time (build.sh -> lib/literals.txt next to the binary): a value that a
    // shortcut, a fast path or a "reserved" rule treats specially is, whatever it is, one of the literals of the code that
    // does so - pseudo-random 16/32/64-bit draws never hit it. The executor clamps every field to its legal domain.
    static const std::vector<int64_t>& sourceLiterals()
    {
        static const std::vector<int64_t> lits = []
        {
            std::vector<int64_t> v;
            char exe[4096];
            const ssize_t n = readlink("/proc/self/exe", exe, sizeof exe - 1);
            if (n <= 0)
                return v;
            exe[n] = 0;
            std::string path(exe);
            const size_t slash = path.rfind('/');
            if (slash == std::string::npos)
                return v;
            path = path.substr(0, slash) + "/lib/literals.txt";
            FILE* f = fopen(path.c_str(), "r");
            if (!f)
                return v;
            unsigned long long x;
            while (fscanf(f, "%llu", &x) == 1 && v.size() < 4000)
                v.push_back(static_cast<int64_t>(x));
            fclose(f);
            return v;
        }();
        return lits;
    }
    void literalPass()
    {
        const auto& lits = sourceLiterals();
        if (lits.empty() || !rng.chance(1, 5) || plan.cfgGet("wraprun", 0))
            return;
        const bool honest = plan.prop == "C01" || plan.prop == "C05" || plan.prop == "C06" || plan.prop == "C16" || plan.prop == "C07" || plan.prop == "C08" ||
                            plan.prop == "C09" || plan.prop == "C10" || plan.prop == "C13";
        static const char* honestKeys[] = {"ts", "ifid", "len", "min", "max", "ver", "pifid", "val", "n", "v", "s0", "s1", "s2", "s3", "trail"};
        static const char* hostileKeys[] = {"ts", "ifid", "len", "min", "max", "ver", "pifid", "val", "n", "v", "s0", "s1", "s2", "s3", "trail", "dev",
                                            "stream", "ctr", "ptype", "wlen", "ilen", "plen", "dtype", "decl", "dflags", "xflags", "p1v", "ilen2"};
        std::vector<std::pair<Item*, size_t>> cand;
        auto consider = [&](Item& it)
        {
            for (size_t i = 0; i < it.kv.size(); ++i)
            {
                bool ok = false;
                if (honest)
                {
                    for (const char* k : honestKeys)
                        ok = ok || it.kv[i].first == k;
                }
                else
                    for (const char* k : hostileKeys)
                        ok = ok || it.kv[i].first == k;
                if (ok)
                    cand.emplace_back(&it, i);
            }
        };
        for (auto& it : plan.items)
        {
            if (it.tag != "op" || it.get("rep", 0) > 50)
                continue;
            consider(it);
            if (it.sub.size() <= 64)
                for (auto& m : it.sub)
                    if (m.get("rep", 0) <= 50)
                        consider(m);
        }
        if (cand.empty())
            return;
        const size_t n = 1 + rng.below(3);
        for (size_t q = 0; q < n; ++q)
        {
            auto& c = cand[rng.below(cand.size())];
            auto& kv = c.first->kv[c.second];
            int64_t v = lits[rng.below(lits.size())];
            if (kv.first == "ts" || kv.first == "ifid" || kv.first == "pifid" || kv.first == "dflags" || kv.first == "xflags")
            {
                // wide fields: a wide literal (the small ones are reached by ordinary draws anyway)
                std::vector<int64_t> wide;
                for (int64_t l : lits)
                    if (l < 0 || l > 255)
                        wide.push_back(l);
                if (!wide.empty() && rng.chance(3, 4))
                    v = wide[rng.below(wide.size())];
            }
            switch (rng.below(8))
            {
                case 0:
                    v += 1;
                    break;
                case 1:
                    v -= 1;
                    break;
                case 2:
                    if (kv.first == "len" || kv.first == "n" || kv.first == "max" || kv.first == "min")
                        v -= rng.pick<int64_t>({8, 16, 24});
                    break;
                default:
                    break;
            }
            if (kv.first == "len" || kv.first == "n" || kv.first == "v" || kv.first == "trail" || kv.first[0] == 's')
                v = std::min<int64_t>(std::max<int64_t>(v, 0), 70000);  // (sizes: the executor clamps further)
            if (kv.first == "max" || kv.first == "min")
                v = std::min<int64_t>(std::max<int64_t>(v, 0), 70000);
            kv.second = v;
        }
        cfg().set("lit", static_cast<int64_t>(n));
    }

    // Object lifecycle events: the receiver's decoder, a capture module's encoder or the status tracker is copied, moved,
    // assigned over a used object, swapped, self-assigned or forked (OP_LIFE) between two operations of the run, and
    // decoded packets are handed on as copies (cfg plife). Values stay values: no model changes.
    void lifePass()
    {
        const std::string& pr = plan.prop;
        const bool decProps = pr == "C01" || pr == "C02" || pr == "C04" || pr == "C05" || pr == "C06" || pr == "C17" || pr == "C18" || pr == "C16" || pr == "C03";
        const bool encProps = pr == "C01" || pr == "C07" || pr == "C08" || pr == "C09" || pr == "C10";
        const bool statProps = pr == "C16";
        // the wall clock the library would see jumps ahead (ms .. days) before every delivery and operation
        if (pr != "C13" && pr != "C03" && rng.chance(1, 3))
            cfg().set("clockjump", static_cast<int64_t>(1 + rng.below(1000000)));
        if (!decProps && !encProps && !statProps)
            return;
        if (plan.cfgGet("wraprun", 0) || plan.cfgGet("nolife", 0))
            return;
        if ((decProps || statProps) && rng.chance(1, 3))
            cfg().set("plife", static_cast<int64_t>(1 + rng.below(1000000)));
        if (pr == "C01" && plan.cfgGet("rx", 1) && rng.chance(1, 3))
            cfg().set("relay", static_cast<int64_t>(1 + rng.below(1000000)));
        if (!rng.chance(1, 3))
            return;
        std::vector<size_t> ops;
        std::vector<int64_t> encNodes;
        for (size_t i = 0; i < plan.items.size(); ++i)
        {
            if (plan.items[i].tag == "op")
                ops.push_back(i);
            if (plan.items[i].tag == "node" && plan.items[i].get("type", 2) == 1)
                encNodes.push_back(plan.items[i].get("id"));
        }
        if (ops.size() < 2)
            return;
        const size_t n = 1 + rng.below(4);
        std::vector<Item> extra;
        for (size_t q = 0; q < n; ++q)
        {
            // right behind a randomly chosen operation (the object then has that operation's state in it)
            const Item& at = plan.items[ops[rng.below(ops.size())]];
            Item o("op");
            o.set("k", OP_LIFE).set("t", at.get("t") + static_cast<int64_t>(rng.below(3)));
            int obj = 0;
            std::vector<int> cand;
            if (decProps && plan.cfgGet("rx", 1))
                cand.push_back(0);
            if (encProps && !encNodes.empty())
                cand.push_back(1);
            if (statProps)
                cand.push_back(2);
            if (cand.empty())
                return;
            obj = cand[rng.below(cand.size())];
            o.set("obj", obj);
            if (obj == 1)
                o.set("node", encNodes[rng.below(encNodes.size())]);
            o.set("how", static_cast<int64_t>(1 + rng.below(9)));
            if (at.has("th"))
                o.set("th", at.get("th"));
            extra.push_back(o);
        }
        for (auto& e : extra)
            plan.items.push_back(e);
    }

    // ops are executed in plan order; sort them by their time so that the intended interleaving happens
    Plan finish()
    {
        if (plan.prop != "C06" || plan.cfgGet("sweep", 0) == 0)
            tweakPass();
        if (plan.prop != "C06" || plan.cfgGet("sweep", 0) == 0)
            literalPass();
        // a third of the runs of the families whose senders may be hostile or foreign: frames derived from the comparison
        // operands of the decode calls (world.cpp, deriveFromComparisons; asan variant)
        if ((plan.prop == "C02" || plan.prop == "C04" || plan.prop == "C15" || plan.prop == "C17" || plan.prop == "C18" || plan.prop == "C01" || plan.prop == "C07" ||
             plan.prop == "C08" || plan.prop == "C09" || plan.prop == "C10") &&
            rng.chance(1, 3) && plan.cfgGet("wraprun", 0) == 0)
            cfg().set("cmpfb", 1);
        lifePass();
        std::stable_sort(plan.items.begin(), plan.items.end(), [](const Item& a, const Item& b) {
            const bool ao = a.tag == "op", bo = b.tag == "op";
            if (ao != bo)
                return !ao;  // cfg / node items first
            if (!ao)
                return false;
            return a.get("t") < b.get("t");
        });
        return std::move(plan);
    }

    Item& cfg()
    {
        for (auto& i : plan.items)
            if (i.tag == "cfg")
                return i;
        plan.items.insert(plan.items.begin(), Item("cfg"));
        return plan.items.front();
    }

    uint32_t msgId()
    {
        return nextMsgId++;
    }

    Item& addNode(int id, int type, int dev, int stream)
    {
        Item n("node");
        n.set("id", id).set("type", type).set("dev", dev).set("stream", stream);
        n.set("lat", rng.pick<int64_t>({1, 5, 20, 50, 200, 1000}) + rng.range(0, 9));
        n.set("gap", rng.pick<int64_t>({0, 1, 1, 3, 10, 40}));
        plan.items.push_back(n);
        return plan.items.back();
    }

    int64_t nodeGap(int id) const
    {
        for (auto& i : plan.items)
            if (i.tag == "node" && i.get("id") == id)
                return i.get("gap", 1);
        return 1;
    }

    // an op of node `node` that will emit about `frames` frames; keeps the node's link FIFO
    Item& addOp(int kind, int node, int64_t frames = 1)
    {
        Item op("op");
        clock += rng.pick<int64_t>({0, 1, 2, 5, 20, 100});
        int64_t t = clock;
        if (node >= 0 && node < 64)
        {
            if (t < busyUntil[node])
                t = busyUntil[node];
            busyUntil[node] = t + frames * nodeGap(node) + 1;
        }
        op.set("k", kind).set("t", t);
        if (node >= 0)
            op.set("node", node);
        plan.items.push_back(op);
        return plan.items.back();
    }

    // ----- choices
    void pickCtx(int64_t& minB, int64_t& maxB)
    {
        switch (rng.below(10))
        {
            case 0:
                maxB = rng.range(25, 40);
                break;
            case 1:
                maxB = 64;
                break;
            case 2:
            case 3:
                maxB = 100;
                break;
            case 4:
            case 5:
                maxB = 1500;
                break;
            case 6:
                maxB = 9000;
                break;
            case 7:
                maxB = bigFrames && rng.chance(1, 3) ? rng.range(65560, 300000) : 65559;  // C01 / C10 put no upper bound on max
                break;
            case 8:
                maxB = rng.chance(1, 2) ? rng.range(25, 300) : 24 + (1LL << rng.range(0, 15));  // (max - 24) a power of two
                break;
            default:
                maxB = rng.range(25, 2000);
                break;
        }
        if (maxB > 65559)
        {
            minB = rng.chance(1, 2) ? 0 : rng.range(0, 3000);  // jumbo frames: keep the padding affordable
            return;
        }
        switch (rng.below(5))
        {
            case 0:
                minB = 0;
                break;
            case 1:
                minB = std::min<int64_t>(64, maxB);
                break;
            case 2:
                minB = maxB;
                break;
            default:
                minB = rng.range(0, maxB);
                break;
        }
    }

    int pickKind(const std::vector<int>& kinds)
    {
        return kinds[rng.below(kinds.size())];
    }

    std::vector<int> pickKindSet()
    {
        static const int all[] = {wire::K_GENERIC, wire::K_CAN, wire::K_CANFD, wire::K_LIN, wire::K_ANALOG, wire::K_ETH, wire::K_CMSTAT, wire::K_IFSTAT};
        std::vector<int> s;
        if (rng.chance(1, 3))
        {
            for (int k : all)
                s.push_back(k);
            return s;
        }
        for (int k : all)
            if (rng.chance(1, 2))
                s.push_back(k);
        if (s.empty())
            s.push_back(all[rng.below(8)]);
        return s;
    }

    // payload length, boundary biased against the frame size; free = room left in the current frame (or -1)
    int64_t pickLen(int64_t maxB, int64_t freeBytes, int64_t maxFramesPerMsg)
    {
        const int64_t per = maxB - 24;  // payload bytes of a frame-filling message
        int64_t L;
        switch (rng.below(12))
        {
            case 0:
            case 1:
                L = per + rng.range(-2, 2);
                break;
            case 2:
                L = freeBytes >= 0 ? freeBytes - 16 + rng.range(-2, 2) : per + rng.range(-2, 2);
                break;
            case 3:
                L = per * rng.range(2, 4) + rng.range(-2, 2);
                break;
            case 4:
                L = rng.logRange(1, 65535);
                break;
            case 5:
                L = rng.chance(1, 8) ? 65535 : rng.range(1, 16);
                break;
            case 6:
                L = rng.chance(1, 2) ? rng.range(per + 1, per * 3 + 5) : (1LL << rng.range(4, 16)) + rng.range(-2, 2);  // powers of two +-2 (255/256, 32767/32768, 65535)
                break;
            default:
                L = rng.range(1, std::max<int64_t>(2, std::min<int64_t>(per, 120)));
                break;
        }
        L = std::max<int64_t>(1, std::min<int64_t>(L, 65535));
        if (L > per * maxFramesPerMsg)
            L = per * maxFramesPerMsg - rng.range(0, 3);
        return std::max<int64_t>(1, L);
    }

    uint64_t pickTs()
    {
        switch (rng.below(4))
        {
            case 0:
                return 0;
            case 1:
                return ~0ULL;
            default:
                return rng.next() >> rng.below(40);
        }
    }
    int64_t pickFlags()
    {
        int64_t f = 0;
        for (int b : {0x01, 0x02, 0x10, 0x20, 0x80})
            if (rng.chance(1, 4))
                f |= b;
        return f;
    }

    // fills a logical message item for an encoder batch
    void fillMsg(Item& m, const std::vector<int>& kinds, int64_t maxB, int64_t freeBytes, int64_t maxFramesPerMsg)
    {
        int kind = pickKind(kinds);
        int64_t L = pickLen(maxB, freeBytes, maxFramesPerMsg);
        if (L < static_cast<int64_t>(minLenOf(kind)))
        {
            if (rng.chance(1, 2))
                kind = wire::K_GENERIC;
            else
                L = static_cast<int64_t>(minLenOf(kind)) + rng.range(0, 8);
        }
        m.set("kind", kind).set("len", L).set("id", msgId());
        if (kind == wire::K_GENERIC)
        {
            switch (rng.below(6))
            {
                case 0:
                    m.set("mtype", 1).set("ptype", rng.pick<int64_t>({4, 5, 6, 9, 0x0A, 0x0C, 0x20, 0xFF}));
                    break;
                case 1:
                    m.set("mtype", 2).set("ptype", rng.range(1, 255));
                    break;
                case 2:
                    m.set("mtype", 0xFF).set("ptype", rng.range(1, 255));
                    break;
                case 3:
                    m.set("mtype", 3).set("ptype", rng.pick<int64_t>({3, 4, 5, 0xFF}));
                    break;
                case 4:
                    m.set("mtype", rng.pick<int64_t>({4, 0x7F, 0x80, 0xFE})).set("ptype", rng.range(1, 255));
                    break;
                default:
                    m.set("mtype", 1).set("ptype", 0x20);
                    break;
            }
        }
        m.set("ts", static_cast<int64_t>(pickTs()));
        m.set("ifid", static_cast<int64_t>(rng.chance(1, 6) ? 0xFFFFFFFFu : static_cast<uint32_t>(rng.next() >> rng.below(32))));
        int64_t fl = pickFlags();
        if (rng.chance(1, 20))
            fl |= rng.pick<int64_t>({0x04, 0x08, 0x0C});
        m.set("flags", fl);
        m.set("build", static_cast<int64_t>(rng.below(3)));
    }

    // distinct endpoints that collide in one coordinate
    std::vector<std::pair<int, int>> pickEndpoints(size_t n)
    {
        std::vector<int> devs, streams;
        const int devPool[] = {1, 2, 3, 0x0102, 0, 0xFFFF, 0x0100, 0x00FF};
        const int strPool[] = {0, 1, 2, 0xFF, 0x80};
        size_t nd = 1 + rng.below(3), ns = 1 + rng.below(3);
        while (nd * ns < n)
        {
            if (nd <= ns)
                ++nd;
            else
                ++ns;
        }
        std::set<int> sd, ss;
        while (sd.size() < nd)
            sd.insert(rng.chance(1, 5) ? static_cast<int>(rng.below(65536)) : devPool[rng.below(8)]);
        while (ss.size() < ns)
            ss.insert(rng.chance(1, 5) ? static_cast<int>(rng.below(256)) : strPool[rng.below(5)]);
        devs.assign(sd.begin(), sd.end());
        streams.assign(ss.begin(), ss.end());
        std::vector<std::pair<int, int>> all;
        for (int d : devs)
            for (int s : streams)
                all.emplace_back(d, s);
        // seeded shuffle
        for (size_t i = all.size(); i > 1; --i)
            std::swap(all[i - 1], all[rng.below(i)]);
        all.resize(n);
        return all;
    }
};

void addFault(Item& op, int type, int64_t frame, int64_t a = 0, int64_t b = 0, int64_t c = 0);
int64_t addTrafficOp(Gen& g, int node, int nodeType, bool allowSeg, int maxSeg);
void addTecmpOp(Gen& g, int node, bool faulty);
void addTransitFault(Gen& g, Item& op, int64_t frames);

Plan genCodec(const std::string& prop, int tier, uint64_t batchSeed, uint64_t idx);
Plan genReasm(const std::string& prop, int tier, uint64_t batchSeed, uint64_t idx);
Plan genFaulty(const std::string& prop, int tier, uint64_t batchSeed, uint64_t idx);
Plan genHostile(const std::string& prop, int tier, uint64_t batchSeed, uint64_t idx);
Plan genWire(const std::string& prop, int tier, uint64_t batchSeed, uint64_t idx);
Plan genProbe(const std::string& prop, int tier, uint64_t batchSeed, uint64_t idx);
Plan genBuild(const std::string& prop, int tier, uint64_t batchSeed, uint64_t idx);
Plan genTecmp(const std::string& prop, int tier, uint64_t batchSeed, uint64_t idx);
Plan genStatus(const std::string& prop, int tier, uint64_t batchSeed, uint64_t idx);

}  // namespace sim
