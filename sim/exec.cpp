#include "exec.h"

namespace sim
{

const char* variantName()
{
#if defined(SIM_VARIANT_ASAN)
    return "asan";
#elif defined(SIM_VARIANT_PLAIN)
    return "plain";
#elif defined(SIM_VARIANT_SCHED)
    return "sched";
#elif defined(SIM_VARIANT_TSAN)
    return "tsan";
#else
    return "unknown";
#endif
}

RunResult execForProp(const Plan& plan)
{
    if (plan.prop == "C20")
        return execMemoryDifferential(plan);
    if (plan.prop == "C19")
        return execThreads(plan);
    return execPlan(plan);
}

}  // namespace sim
