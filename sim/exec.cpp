#include "exec.h"

namespace sim
{

const char* variantName()
{
#if defined(SIM_VARIANT_ASAN)
    return "asan";
#elif defined(SIM_VARIANT_PLAIN)
    return "plain";
#elif defined(SIM_VARIANT_SCHED)
    return "sched";
#elif defined(SIM_VARIANT_TSAN)
    return "tsan";
#else
    return "unknown";
#endif
}

RunResult execForProp(const Plan& plan)
{
    if (plan.prop == "C20")
        return execMemoryDifferential(plan);
    if (plan.prop == "C19")
    {
#if defined(SIM_VARIANT_ASAN) || defined(SIM_VARIANT_PLAIN)
        return execInstances(plan);
#else
        return execThreads(plan);
#endif
    }
    return execPlan(plan);
}

}  // namespace sim
