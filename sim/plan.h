// Explicit plans: a run is "generate a plan from the seed, then execute the plan".
// Execution never draws a random number, so a replay file IS a plan and the shrinker edits
// plans directly. A plan is a small tree of items; every value is an integer.
//
//   plan v1 prop=C05 seed=123 idx=7
//   cfg nodes=2 ...
//   node id=1 type=1 dev=3 stream=1 lat=50 gap=7
//   op k=enc node=1 t=100 min=64 max=100 ver=1
//     m kind=1 len=24 id=7 ts=5 ifid=9 flags=2
//     f type=2 frame=1 a=3
#pragma once
#include <cstdint>
#include <cstdio>
#include <sstream>
#include <string>
#include <utility>
#include <vector>

#include "prng.h"

namespace sim
{

struct Item
{
    std::string tag;  // "cfg", "node", "op", "m", "s", "f", ...
    std::vector<std::pair<std::string, int64_t>> kv;
    std::vector<Item> sub;

    Item() = default;
    explicit Item(std::string t)
        : tag(std::move(t))
    {
    }

    bool has(const char* k) const
    {
        for (auto& p : kv)
            if (p.first == k)
                return true;
        return false;
    }
    int64_t get(const char* k, int64_t def = 0) const
    {
        for (auto& p : kv)
            if (p.first == k)
                return p.second;
        return def;
    }
    Item& set(const char* k, int64_t v)
    {
        for (auto& p : kv)
            if (p.first == k)
            {
                p.second = v;
                return *this;
            }
        kv.emplace_back(k, v);
        return *this;
    }
    void erase(const char* k)
    {
        for (size_t i = 0; i < kv.size(); ++i)
            if (kv[i].first == k)
            {
                kv.erase(kv.begin() + i);
                return;
            }
    }
};

struct Plan
{
    std::string prop;
    uint64_t seed{0};
    int64_t idx{0};
    std::string expectSig;  // only in replay files
    std::vector<Item> items;  // cfg, node and op items in order

    const Item* cfg() const
    {
        for (auto& i : items)
            if (i.tag == "cfg")
                return &i;
        return nullptr;
    }
    int64_t cfgGet(const char* k, int64_t def = 0) const
    {
        auto c = cfg();
        return c ? c->get(k, def) : def;
    }
};

inline void writeItem(std::ostream& os, const Item& it, int depth)
{
    for (int i = 0; i < depth; ++i)
        os << "  ";
    os << it.tag;
    for (auto& p : it.kv)
        os << ' ' << p.first << '=' << p.second;
    os << '\n';
    for (auto& s : it.sub)
        writeItem(os, s, depth + 1);
}

inline std::string planToText(const Plan& p)
{
    std::ostringstream os;
    os << "plan v1 prop=" << p.prop << " seed=" << p.seed << " idx=" << p.idx << '\n';
    if (!p.expectSig.empty())
        os << "expect " << p.expectSig << '\n';
    for (auto& it : p.items)
        writeItem(os, it, 0);
    return os.str();
}

inline uint64_t planHash(const Plan& p)
{
    // hash of the executable content only (not seed/idx/expect)
    std::ostringstream os;
    for (auto& it : p.items)
        writeItem(os, it, 0);
    return hashStr(os.str());
}

inline bool parsePlan(const std::string& text, Plan& out, std::string& err)
{
    out = Plan();
    std::istringstream is(text);
    std::string line;
    std::vector<Item*> stack;  // stack[d] = last item at depth d
    bool headerSeen = false;
    while (std::getline(is, line))
    {
        if (line.empty() || line[0] == '#')
            continue;
        size_t ind = 0;
        while (ind < line.size() && line[ind] == ' ')
            ++ind;
        int depth = static_cast<int>(ind / 2);
        std::istringstream ls(line.substr(ind));
        std::string tag;
        ls >> tag;
        if (tag == "plan")
        {
            std::string tok;
            while (ls >> tok)
            {
                auto eq = tok.find('=');
                if (eq == std::string::npos)
                    continue;
                std::string k = tok.substr(0, eq), v = tok.substr(eq + 1);
                if (k == "prop")
                    out.prop = v;
                else if (k == "seed")
                    out.seed = std::stoull(v);
                else if (k == "idx")
                    out.idx = std::stoll(v);
            }
            headerSeen = true;
            continue;
        }
        if (tag == "expect")
        {
            std::string rest;
            std::getline(ls, rest);
            size_t b = rest.find_first_not_of(' ');
            out.expectSig = b == std::string::npos ? "" : rest.substr(b);
            continue;
        }
        Item it(tag);
        std::string tok;
        while (ls >> tok)
        {
            auto eq = tok.find('=');
            if (eq == std::string::npos)
            {
                err = "bad token '" + tok + "'";
                return false;
            }
            try
            {
                it.kv.emplace_back(tok.substr(0, eq), std::stoll(tok.substr(eq + 1)));
            }
            catch (...)
            {
                err = "bad value in '" + tok + "'";
                return false;
            }
        }
        if (depth == 0)
        {
            out.items.push_back(std::move(it));
            stack.assign(1, &out.items.back());
        }
        else
        {
            if (static_cast<int>(stack.size()) < depth)
            {
                err = "bad indentation";
                return false;
            }
            Item* parent = stack[depth - 1];
            parent->sub.push_back(std::move(it));
            stack.resize(depth);
            stack.push_back(&parent->sub.back());
        }
    }
    if (!headerSeen)
    {
        err = "no plan header";
        return false;
    }
    return true;
}

}  // namespace sim
