// world.cpp -- event loop, network, fault operators, receiver and its oracles
#include "world_int.h"
#include "sched.h"

#include <cstring>
#include <deque>

namespace sim
{
int64_t liveHeapBytes();
void simClockEnable(bool on);
void simClockSet(uint64_t ns);
uint64_t simClockReads();

static OutputTap g_tap = nullptr;
void setOutputTap(OutputTap tap)
{
    g_tap = tap;
}
OutputTap currentTap()
{
    return g_tap;
}

uint64_t hashExp(const ExpPacket& e)
{
    uint64_t h = 0x1234;
    h = hashU64(e.dev, h);
    h = hashU64(e.stream, h);
    h = hashU64(e.version, h);
    h = hashU64(e.mtype, h);
    h = hashU64(e.ptype, h);
    h = hashU64(e.ts, h);
    switch (wire::idKindOf(e.mtype))
    {
        case wire::ID_INTERFACE:
            h = hashU64(e.id32, h);
            break;
        case wire::ID_VENDOR:
            h = hashU64(e.id32 & 0xFFFF, h);
            break;
        default:
            break;
    }
    h = hashU64(e.flags & ~wire::SEG_MASK, h);
    h = hashU64(fnv1a(e.payload.data(), e.payload.size()), h);
    h = hashU64(e.payload.size(), h);
    return h;
}

uint64_t hashObsAsSent(const lib::Obs& o)
{
    uint64_t h = 0x1234;
    h = hashU64(o.dev, h);
    h = hashU64(o.stream, h);
    h = hashU64(o.version, h);
    h = hashU64(o.mtype, h);
    h = hashU64(o.ptype, h);
    h = hashU64(o.ts, h);
    switch (wire::idKindOf(o.mtype))
    {
        case wire::ID_INTERFACE:
            h = hashU64(o.ifid, h);
            break;
        case wire::ID_VENDOR:
            h = hashU64(o.vendor, h);
            break;
        default:
            break;
    }
    h = hashU64(o.flags & ~wire::SEG_MASK, h);
    h = hashU64(fnv1a(o.payload.data(), o.payload.size()), h);
    h = hashU64(o.payload.size(), h);
    return h;
}

static uint64_t obsDigest(const lib::Obs& o);
static uint64_t obsDigestPublic(const lib::Obs& o)
{
    return obsDigest(o);
}
static uint64_t obsDigest(const lib::Obs& o)
{
    uint64_t h = hashObsAsSent(o);
    h = hashU64(o.valid, h);
    h = hashU64(o.hasPayload, h);
    h = hashU64(o.typeCode, h);
    h = hashU64(o.seq, h);
    h = hashU64(o.segType, h);
    h = hashU64(o.ifid, h);
    h = hashU64(o.vendor, h);
    h = hashU64(o.flags, h);
    h = hashU64(fnv1a(o.rawCmpHeader.data(), o.rawCmpHeader.size()), h);
    h = hashU64(fnv1a(o.rawMsgHeader.data(), o.rawMsgHeader.size()), h);
    return h;
}

World::World(const Plan& p)
    : plan(p)
    , prop(p.prop)
{
    rxEnabled = plan.cfgGet("rx", 1) != 0;
    statusEnabled = plan.cfgGet("status", 0) != 0;
    typedViews = plan.cfgGet("typed", 0) != 0 || is("C03") || is("C15") || is("C13") || is("C16");
    plife = static_cast<uint64_t>(plan.cfgGet("plife", 0));
    clockJumpSeed = static_cast<uint64_t>(plan.cfgGet("clockjump", 0));
    shareInput = plan.cfgGet("shareinput", 0) != 0;
    keepAll = plan.cfgGet("keepall", 0) != 0;
    cmpFeedback = plan.cfgGet("cmpfb", 0) != 0;
    if (plan.cfgGet("lit", 0))
        fault("plan-field-set-to-a-source-literal");
    if (clockJumpSeed)
        fault("wall-clock-jumps");
    lib::setHostileLocale(is("C15") && plan.cfgGet("locale", 0) != 0);
    lib::setMovedFromReuse(is("C20"));
    if (is("C15") && plan.cfgGet("locale", 0))
        fault("hostile-global-locale");
    if (rxEnabled)
    {
        dec = std::make_unique<lib::Dec>();
        dec->setPacketLife(plife);
    }
    if (statusEnabled)
        stat = std::make_unique<lib::Stat>();
    if (rxEnabled && is("C01") && plan.cfgGet("relay", 0))
    {
        relayEnc = std::make_unique<lib::Enc>();
        relayEnc->setDev(0x7E1A);
        relayEnc->setStream(0x7E);
        relayDec = std::make_unique<lib::Dec>();
    }
    for (auto& it : plan.items)
    {
        if (it.tag != "node")
            continue;
        Node n;
        n.id = static_cast<int>(it.get("id"));
        n.type = static_cast<int>(it.get("type", 2));
        n.dev = static_cast<uint16_t>(it.get("dev"));
        n.stream = static_cast<uint8_t>(it.get("stream"));
        n.lat = std::max<int64_t>(0, it.get("lat", 10));
        n.gap = std::max<int64_t>(0, it.get("gap", 1));
        n.ctr = static_cast<uint16_t>(it.get("ctr0", 1));
        if (n.type == 1)
        {
            n.enc = std::make_unique<lib::Enc>();
            if (it.get("setids", 1))
            {
                n.enc->setDev(n.dev);
                n.enc->setStream(n.stream);
            }
            else
            {
                n.dev = 0;
                n.stream = 0;
            }
        }
        nodes[n.id] = std::move(n);
    }
}

World::~World()
{
    while (!queue.empty())
    {
        delete queue.top();
        queue.pop();
    }
}

void World::violate(const std::string& rule, const std::string& detail)
{
    Violation v;
    v.prop = prop;
    v.rule = rule;
    v.detail = detail;
    v.op = curOp;
    res.viol.push_back(std::move(v));
}

void World::evBytes(const void* p, size_t n, const char* what)
{
    if (g_tap)
        g_tap(p, n, what);
    ev(fnv1a(p, n));
    ev(n);
}

Node& World::nodeOf(const Item& op)
{
    int id = static_cast<int>(op.get("node", 0));
    auto it = nodes.find(id);
    if (it == nodes.end())
    {
        Node n;
        n.id = id;
        n.type = 2;
        n.dev = static_cast<uint16_t>(op.get("dev", 1));
        n.stream = static_cast<uint8_t>(op.get("stream", 1));
        it = nodes.emplace(id, std::move(n)).first;
    }
    return it->second;
}

void World::advanceTo(uint64_t t)
{
    while (!queue.empty() && queue.top()->time <= t)
    {
        InFlight* f = queue.top();
        queue.pop();
        if (f->time > now)
            now = f->time;
        deliver(*f);
        delete f;
    }
    if (t > now)
        now = t;
}

// Delivers up to maxFrames of the frames that are due before operation nextOp starts (they would be delivered at its
// start anyway, in the same order): lets a run be interrupted BETWEEN two deliveries, e.g. in the middle of a reassembly.
size_t World::deliverDue(size_t maxFrames, size_t nextOp)
{
    uint64_t t = static_cast<uint64_t>(-1);
    size_t idx = 0;
    for (auto& it : plan.items)
    {
        if (it.tag != "op")
            continue;
        if (idx++ == nextOp)
        {
            t = static_cast<uint64_t>(std::max<int64_t>(0, it.get("t", static_cast<int64_t>(now))));
            break;
        }
    }
    size_t done = 0;
    while (done < maxFrames && !queue.empty() && queue.top()->time <= t)
    {
        InFlight* f = queue.top();
        queue.pop();
        if (f->time > now)
            now = f->time;
        deliver(*f);
        delete f;
        ++done;
    }
    return done;
}

void World::drain()
{
    while (!queue.empty())
    {
        InFlight* f = queue.top();
        queue.pop();
        if (f->time > now)
            now = f->time;
        deliver(*f);
        delete f;
    }
}

void World::run()
{
    runOps(0, static_cast<size_t>(-1));
    finishRun();
}

void World::finishRun()
{
    curOp = -1;
    drain();
    finish();
    res.simTimeUs = now;
    res.nontrivial = !res.probes.empty();
}

// the objects under test are replaced by COPIES of another world's (which is in the same logical state)
void World::adoptCopiesFrom(World& proto)
{
    if (dec && proto.dec)
    {
        dec = proto.dec->clone();
        dec->setPacketLife(plife);
        decShadowSeen = dec->shadowDiverged();
    }
    if (stat && proto.stat)
        stat = proto.stat->clone();
    for (auto& kv : nodes)
    {
        auto it = proto.nodes.find(kv.first);
        if (kv.second.enc && it != proto.nodes.end() && it->second.enc)
            kv.second.enc = it->second.enc->clone();
    }
    fault("object-copied-or-moved");
}

void World::runOps(size_t fromOp, size_t toOp)
{
    int idx = 0;
    const size_t maxViol = 8;
    for (auto& it : plan.items)
    {
        if (it.tag != "op")
            continue;
        const size_t me = static_cast<size_t>(idx);
        curOp = idx++;
        if (me < fromOp)
            continue;
        if (me >= toOp)
            break;
        if (res.viol.size() >= maxViol)
            break;
        uint64_t t = static_cast<uint64_t>(std::max<int64_t>(0, it.get("t", static_cast<int64_t>(now))));
        if (t < now)
            t = now;
        advanceTo(t);
        syncClock();
        switch (it.get("k"))
        {
            case OP_ENC:
                opEnc(it);
                break;
            case OP_RAWSEG:
                opRawSeg(it);
                break;
            case OP_RAW:
                opRaw(it);
                break;
            case OP_TECMP:
                opTecmp(it);
                break;
            case OP_NOISE:
                opNoise(it);
                break;
            case OP_STALE:
                opStale(it);
                break;
            case OP_RXRESTART:
                opRxRestart(it);
                break;
            case OP_CMSET:
                opCmSet(it);
                break;
            case OP_STATUS:
                opStatus(it);
                break;
            case OP_BUILD:
                opBuild(it);
                break;
            case OP_PROBE:
                opProbe(it);
                break;
            case OP_STATUPD:
                opStatUpd(it);
                break;
            case OP_LIFE:
                opLife(it);
                break;
            default:
                break;
        }
    }
}

// ---------------------------------------------------------------------------------------------- network
bool World::applySetField(Bytes& b, int field, int idx, int64_t val, bool rel)
{
    // rel: val is a delta to "what is really left behind this field" (resolved on the actual bytes)
    if (b.size() < wire::CMP_HDR)
        return false;
    switch (field)
    {
        case FLD_VERSION:
            b[0] = static_cast<uint8_t>(val);
            return true;
        case FLD_MTYPE:
            b[4] = static_cast<uint8_t>(val);
            return true;
        case FLD_CTR:
            wire::wr16(b.data() + 6, static_cast<uint16_t>(val));
            return true;
        case FLD_DEVICE:
            wire::wr16(b.data() + 2, static_cast<uint16_t>(val));
            return true;
        case FLD_STREAM:
            b[5] = static_cast<uint8_t>(val);
            return true;
        case FLD_TECMP_PLEN:
            if (b.size() < wire::TECMP_HDR)
                return false;
            if (rel)
                val += static_cast<int64_t>(b.size() - wire::TECMP_HDR);
            wire::wr16(b.data() + 24, static_cast<uint16_t>(std::max<int64_t>(0, val)));
            return true;
        case FLD_TECMP_MTYPE:
            b[5] = static_cast<uint8_t>(val);
            return true;
        case FLD_TECMP_DTYPE:
            wire::wr16(b.data() + 6, static_cast<uint16_t>(val));
            return true;
        case FLD_TECMP_INNER:
        {
            if (b.size() <= wire::TECMP_HDR + 4)
                return false;
            wire::TecmpHdr h = wire::parseTecmpHdr(b.data());
            size_t off = wire::TECMP_HDR + (h.dtype == wire::TDT_LIN ? 1 : 4);
            if (h.mtype != wire::TMT_DATA)
                off = wire::TECMP_HDR + 4 + (idx & 1);  // vendor data length of the status payloads
            if (off >= b.size())
                return false;
            if (rel)
                val += static_cast<int64_t>(b.size() - off - 1);
            b[off] = static_cast<uint8_t>(std::max<int64_t>(0, val));
            return true;
        }
        default:
            break;
    }
    wire::FrameParse fp = wire::parseFrame(b.data(), b.size());
    if (fp.msgs.empty())
        return false;
    const wire::MsgRef& m = fp.msgs[static_cast<size_t>(idx < 0 ? 0 : idx) % fp.msgs.size()];
    switch (field)
    {
        case FLD_MSG_PLEN:
            if (rel)
                val += static_cast<int64_t>(b.size() - m.off - wire::MSG_HDR);
            wire::wr16(b.data() + m.off + 14, static_cast<uint16_t>(std::max<int64_t>(0, val)));
            return true;
        case FLD_MSG_PTYPE:
            b[m.off + 13] = static_cast<uint8_t>(val);
            return true;
        case FLD_MSG_FLAGS:
            b[m.off + 12] = static_cast<uint8_t>(val);
            return true;
        case FLD_INNER_LEN:
        case FLD_INNER_LEN2:
        {
            int which = field == FLD_INNER_LEN ? 0 : static_cast<int>(1 + ((val >> 16) & 3));
            int kind = wire::kindOf(fp.hdr.mtype, m.h.ptype);
            size_t off;
            int width;
            if (!innerLenField(kind, b.data() + m.payloadOff(), m.h.plen, which, off, width))
                return false;
            if (off + width > m.h.plen)
                return false;
            if (rel)
                val = (val & 0xFFFF) - ((val & 0x8000) ? 0x10000 : 0) + static_cast<int64_t>(m.h.plen - off - static_cast<size_t>(width)) -
                      (kind == wire::K_IFSTAT && which == 0 ? 2 : 0);  // stream-id count: a vendor length field follows
            if (val < 0)
                val = 0;
            if (width == 1)
                b[m.payloadOff() + off] = static_cast<uint8_t>(val);
            else
                wire::wr16(b.data() + m.payloadOff() + off, static_cast<uint16_t>(val));
            return true;
        }
        default:
            return false;
    }
}

void World::applyFaults(const Item& op, std::vector<InFlight>& frames, std::vector<InFlight>& extra)
{
    if (frames.empty())
        return;
    std::vector<bool> dropped(frames.size(), false);
    for (auto& f : op.sub)
    {
        if (f.tag != "f")
            continue;
        size_t k = static_cast<size_t>(std::max<int64_t>(0, f.get("frame", 0))) % frames.size();
        InFlight& fr = frames[k];
        const int64_t a = f.get("a", 0), b = f.get("b", 0), c = f.get("c", 0);
        switch (f.get("type"))
        {
            case F_DROP:
                dropped[k] = true;
                fault("drop");
                break;
            case F_PARTITION:
                dropped[k] = true;
                fault("partition");
                break;
            case F_DUP:
            {
                InFlight copy = fr;
                copy.time += static_cast<uint64_t>(std::max<int64_t>(0, a));
                extra.push_back(std::move(copy));
                fault(a > 200 ? "stale-replay" : "dup");
                break;
            }
            case F_DELAY:
                fr.time += static_cast<uint64_t>(std::max<int64_t>(0, a));
                fault("delay");
                break;
            case F_TRUNC:
            {
                size_t keep = static_cast<size_t>(std::max<int64_t>(0, a));
                if (keep < fr.bytes.size())
                {
                    fr.bytes.resize(keep);
                    fr.pristine = false;
                    fault("truncate");
                }
                break;
            }
            case F_PAD:
            {
                size_t n = static_cast<size_t>(std::min<int64_t>(std::max<int64_t>(0, a), 4096));
                if (n)
                {
                    size_t old = fr.bytes.size();
                    fr.bytes.resize(old + n, 0);
                    if (b)
                        fillContent(fr.bytes.data() + old, static_cast<uint32_t>(b), 0, n);
                    fr.pristine = false;
                    fault(b ? "pad-garbage" : "pad-zero");
                }
                break;
            }
            case F_FLIP:
                if (!fr.bytes.empty() && (b & 0xFF))
                {
                    fr.bytes[static_cast<size_t>(std::max<int64_t>(0, a)) % fr.bytes.size()] ^= static_cast<uint8_t>(b);
                    fr.pristine = false;
                    fault("flip");
                }
                break;
            case F_SETFIELD:
                if (applySetField(fr.bytes, static_cast<int>(a), static_cast<int>(b), c, f.get("rel", 0) != 0))
                {
                    fr.pristine = false;
                    fault("set-field");
                }
                break;
            case F_SPLICE:
                if (!history.empty() && !fr.bytes.empty())
                {
                    const Bytes& other = history[static_cast<size_t>(std::max<int64_t>(0, a)) % history.size()];
                    size_t cut = static_cast<size_t>(std::max<int64_t>(0, b)) % (fr.bytes.size() + 1);
                    Bytes nb(fr.bytes.begin(), fr.bytes.begin() + cut);
                    if (other.size() > cut)
                        nb.insert(nb.end(), other.begin() + cut, other.end());
                    fr.bytes = std::move(nb);
                    fr.pristine = false;
                    fault("splice");
                }
                break;
            case F_ALLOCFAIL:
                if (is("C02"))
                    fr.allocFail = static_cast<long>(std::min<int64_t>(std::max<int64_t>(0, a), 100000));
                break;
            case F_CORRUPT_VER:
                if (fr.isSegmentFrame && !fr.hasLead && fr.bytes.size() >= wire::CMP_HDR)
                {
                    uint8_t v = static_cast<uint8_t>(a);
                    if (v == 0)
                        v = 2;
                    if (v == fr.bytes[0])
                        v = static_cast<uint8_t>(v == 255 ? 1 : v + 1);
                    fr.bytes[0] = v;
                    fr.pristine = false;
                    fault("corrupt-version");
                }
                break;
            case F_CORRUPT_TYPE:
                if (fr.isSegmentFrame && !fr.hasLead && fr.bytes.size() >= wire::CMP_HDR)
                {
                    uint8_t v = static_cast<uint8_t>(a);
                    if (v == fr.bytes[4])
                        v = static_cast<uint8_t>(v + 1);
                    fr.bytes[4] = v;
                    fr.pristine = false;
                    fault("corrupt-type");
                }
                break;
            default:
                break;
        }
    }
    std::vector<InFlight> keep;
    for (size_t i = 0; i < frames.size(); ++i)
        if (!dropped[i])
            keep.push_back(std::move(frames[i]));
    frames.swap(keep);
}

void World::emit(const Item& op, Node& node, std::vector<InFlight>& frames)
{
    // identity, timing, history
    const uint64_t lat = static_cast<uint64_t>(op.has("lat") ? std::max<int64_t>(0, op.get("lat")) : node.lat);
    const uint64_t gap = static_cast<uint64_t>(op.has("gap") ? std::max<int64_t>(0, op.get("gap")) : node.gap);
    // per-link FIFO: a node's frames never overtake its earlier ones (delay faults break this on purpose)
    uint64_t base = now + lat;
    if (base < node.linkFree)
        base = node.linkFree;
    node.linkFree = base + frames.size() * gap;
    for (size_t k = 0; k < frames.size(); ++k)
    {
        InFlight& f = frames[k];
        f.frameId = nextFrameId++;
        f.op = curOp;
        f.node = node.id;
        f.time = base + k * gap;
        evBytes(f.bytes.data(), f.bytes.size(), "frame");
        if (history.size() < 64)
            history.push_back(f.bytes);
        else
            history[static_cast<size_t>(f.frameId) % 64] = f.bytes;
    }
    if (!rxEnabled)
        return;
    std::vector<InFlight> extra;
    applyFaults(op, frames, extra);
    for (auto& f : frames)
    {
        InFlight* p = new InFlight(std::move(f));
        p->seq = seqNo++;
        queue.push(p);
    }
    for (auto& f : extra)
    {
        InFlight* p = new InFlight(std::move(f));
        p->seq = seqNo++;
        queue.push(p);
    }
}

// ---------------------------------------------------------------------------------------------- receiver
void World::checkKept(bool all)
{
    if (kept.empty())
        return;
    size_t step = all ? 1 : std::max<size_t>(1, kept.size() / 4);
    for (size_t i = all ? 0 : (keptChecks % step); i < kept.size(); i += step)
    {
        uint64_t d = lib::digest(kept[i].ref);
        if (d != kept[i].digest)
        {
            violate("own.digest-changed", "a packet returned earlier changed after later decoder activity (kept #" + std::to_string(i) + ")");
            kept[i].digest = d;
        }
    }
    ++keptChecks;
}

// The simulated wall clock the library would see if it read one (simclock.cpp): simulated network time, plus - with
// cfg clockjump - a seeded jump ahead before every delivery and operation: milliseconds to days pass between two frames.
void World::syncClock()
{
    if (clockJumpSeed)
    {
        static const uint64_t steps[] = {0, 0, 1000000ULL, 50000000ULL, 1000000000ULL, 2500000000ULL, 4000000000ULL, 11000000000ULL, 61000000000ULL,
                                         3601000000000ULL, 86401000000000ULL};
        clockOffsetNs += steps[mix64(clockJumpSeed + clockTicks) % (sizeof steps / sizeof steps[0])];
    }
    ++clockTicks;
    simClockSet(now * 1000ULL + clockOffsetNs);
}

// Frames derived from what the decoder compared this frame's bytes with (edgecount.cpp): where the observed operand of a
// comparison with a constant is found in the frame (big- or little-endian, at its own width or as a 16-bit field widened
// for the comparison), a copy of the frame is queued in which those bytes spell the constant. Bounded: 3 generations,
// 48 derived frames per run, 2 positions per operand. The derived frame is judged by the same oracles as any other
// frame a hostile or foreign peer may send (the reference decoder works from the bytes).
void World::deriveFromComparisons(const InFlight& f, const std::vector<cmpfb::Operand>& ops)
{
    const Bytes& in = f.bytes;
    int made = 0, madeVar = 0;
    // constants first, then relations between two variables (at most three of those per delivery)
    std::vector<cmpfb::Operand> ordered;
    for (auto& o : ops)
        if (!o.variable)
            ordered.push_back(o);
    for (auto& o : ops)
        if (o.variable)
            ordered.push_back(o);
    for (auto& o : ordered)
    {
        if (derivedLeft <= 0 || made >= 10)
            break;
        if (o.variable && (madeVar >= 3 || o.width == 1))
            continue;
        if (o.variable)
            ++madeVar;
        if (!o.variable && o.observed == in.size() && o.constant >= 8 && o.constant <= 70000 && o.width >= 4)
        {
            // the buffer SIZE was compared with a constant: the same frame cut, or zero-padded, to exactly that size
            InFlight* d = new InFlight();
            d->bytes = in;
            d->bytes.resize(static_cast<size_t>(o.constant), 0);
            d->time = now;
            d->seq = seqNo++;
            d->frameId = nextFrameId++;
            d->pristine = false;
            d->op = f.op;
            d->node = f.node;
            d->depth = f.depth + 1;
            queue.push(d);
            --derivedLeft;
            ++made;
            fault("frame-resized-to-a-compared-size");
            continue;
        }
        struct Enc
        {
            int width;
            bool be;
        };
        std::vector<Enc> encs;
        if (o.width == 1)
            encs.push_back({1, true});
        else
        {
            encs.push_back({o.width, true});
            encs.push_back({o.width, false});
            if (o.width > 2 && o.observed <= 0xFFFF && o.constant <= 0xFFFF)
                encs.push_back({2, true});
            if (o.width > 4 && o.observed <= 0xFFFFFFFFULL && o.constant <= 0xFFFFFFFFULL)
                encs.push_back({4, true});
        }
        for (auto& e : encs)
        {
            if (in.size() < static_cast<size_t>(e.width))
                continue;
            uint8_t pat[8], rep[8];
            for (int i = 0; i < e.width; ++i)
            {
                const int sh = e.be ? 8 * (e.width - 1 - i) : 8 * i;
                pat[i] = static_cast<uint8_t>(o.observed >> sh);
                rep[i] = static_cast<uint8_t>(o.constant >> sh);
            }
            // positions; a single byte is only followed up when it is rare in the frame
            std::vector<size_t> pos;
            for (size_t p = 0; p + static_cast<size_t>(e.width) <= in.size() && pos.size() < 5; ++p)
                if (memcmp(in.data() + p, pat, static_cast<size_t>(e.width)) == 0)
                    pos.push_back(p);
            if (pos.empty() || (e.width == 1 && pos.size() > 3))
                continue;
            if (pos.size() > 2)
                pos.resize(2);
            for (size_t p : pos)
            {
                if (derivedLeft <= 0 || made >= 10)
                    break;
                InFlight* d = new InFlight();
                d->bytes = in;
                memcpy(d->bytes.data() + p, rep, static_cast<size_t>(e.width));
                d->time = now;
                d->seq = seqNo++;
                d->frameId = nextFrameId++;
                d->pristine = false;
                d->op = f.op;
                d->node = f.node;
                d->depth = f.depth + 1;
                queue.push(d);
                --derivedLeft;
                ++made;
                fault("frame-derived-from-comparison-operands");
                if (d->depth >= 2)
                    probe("second-generation-derived-frame");
            }
            break;  // one encoding per operand is enough
        }
    }
}

void World::deliver(InFlight& f)
{
    syncClock();
    res.deliveries++;
    const size_t n = f.bytes.size();
    // exact-size heap copy, released right after decode returns
    bool sharedBuf = false;
    uint8_t* buf = nullptr;
#if defined(SIM_VARIANT_SCHED)
    if (shareInput && n)
    {
        // C19: the very same receive buffer for every thread that is handed these bytes (sched.h, internInput)
        buf = const_cast<uint8_t*>(sched::internInput(f.bytes.data(), n));
        sharedBuf = true;
        probe("receive-buffer-shared-between-threads");
    }
#endif
    // One delivery in four sits at an odd / unaligned address (a frame inside a larger capture buffer): the END of the
    // block is still exact (ASan sees every read past it), 1..7 addressable bytes lie in front of it.
    size_t misalign = 0;
    uint8_t* block = nullptr;
    if (!sharedBuf)
    {
        const uint64_t mr = mix64(res.deliveries * 0x9E3779B97F4A7C15ULL + n);
        misalign = (mr & 3) == 0 ? 1 + ((mr >> 2) % 7) : 0;
        block = new uint8_t[(n ? n : 1) + misalign];
        buf = block + misalign;
        if (n)
            memcpy(buf, f.bytes.data(), n);
        if (misalign)
            probe("receive-buffer-at-unaligned-address");
    }
    const bool passNull = (n == 0 && plan.cfgGet("nullbuf", 0));
    std::vector<cmpfb::Operand> cmpOps;
    if (cmpFeedback && (is("C02") || is("C04") || is("C15") || is("C17") || is("C18")) && f.depth < 3 && derivedLeft > 0 && n >= 8 && f.allocFail < 0)
        cmpfb::arm(&cmpOps);
    std::vector<lib::PacketRef> out = dec->decode(passNull ? nullptr : buf, n, f.allocFail);
    cmpfb::disarm();
    if (!cmpOps.empty())
        deriveFromComparisons(f, cmpOps);
    const uint64_t edges = dec->lastCallEdges();
    if (f.allocFail >= 0)
    {
        decShadowSeen = dec->shadowDiverged();
        if (dec->lastCallAllocFailed())
            fault(dec->lastCallThrew() ? "allocation-failure-bad_alloc-thrown" : "allocation-failure-swallowed");
        else
            fault("allocation-failure-armed-not-reached");
    }
    res.apiCalls++;
    if (edges)
    {
        // C02 "returns promptly", decided deterministically: the work of one decode call (basic-block edges of library
        // code) must stay linear in the size of the buffer. Calibrated on the unchanged tree (evidence key
        // probes.max-edges-per-call-permille-of-bound): the largest observed ratio is far below 1.
        // (+ a term for the endpoints seen so far: growing the pending table rehashes it, amortised constant per call
        // but a spike in the call that triggers it)
        const uint64_t bound = 4000 + 60 * static_cast<uint64_t>(n) + 8 * static_cast<uint64_t>(ref.st.size());
        const uint64_t permille = edges * 1000 / bound;
        uint64_t& mx = res.probes["max-edges-per-call-permille-of-bound"];
        if (permille > mx)
            mx = permille;
        if (is("C02") && edges > bound)
            violate("time.superlinear", "one decode call of " + std::to_string(n) + " bytes executed " + std::to_string(edges) +
                                            " basic-block edges of library code, linear bound " + std::to_string(bound));
    }
    if (dec->shadowDiverged() != decShadowSeen)
    {
        decShadowSeen = dec->shadowDiverged();
        violate("life.fork-diverged", "a copy of the decoder given the same buffer returned other packets than the original");
    }
    const bool written = n && memcmp(buf, f.bytes.data(), n) != 0;
    if (!sharedBuf)
        delete[] block;
    if (written && is("C02"))
        violate("mem.input-written", "decode modified its input buffer");

    std::vector<lib::Obs> obs;
    obs.reserve(out.size());
    bool nullPacket = false;
    for (auto& r : out)
    {
        if (lib::isNull(r))
        {
            nullPacket = true;
            obs.emplace_back();
            continue;
        }
        obs.push_back(lib::observe(r, typedViews));
    }
    ev(0xD0 + out.size());
    for (auto& o : obs)
    {
        ev(obsDigest(o));
        if (currentTap() && !o.payload.empty())
            currentTap()(o.payload.data(), o.payload.size(), "packet-payload");
        if (currentTap() && !o.rawMsgHeader.empty())
        {
            currentTap()(o.rawCmpHeader.data(), o.rawCmpHeader.size(), "raw-cmp-header-image");
            currentTap()(o.rawMsgHeader.data(), o.rawMsgHeader.size(), "raw-message-header-image");
        }
    }

    model::Expect ex = ref.feed(f.bytes.data(), n);
    res.stateHashes.push_back(ref.stateHash());
    if (ex.cmp)
        res.interleaveHash = hashU64(ex.ep.key(), res.interleaveHash);
    else
        res.interleaveHash = hashU64(ex.tecmp ? 0xFFFFFF01 : 0xFFFFFF02, res.interleaveHash);
    // probes from the model
    if (ex.deliveredSegmented)
        probe("reassembled");
    if (ex.wrapInside)
        probe("counter-wrap-inside-message");
    if (ex.zeroLenSegment)
        probe("zero-length-segment");
    if (ex.trailingAfterSegment)
        probe("trailing-bytes-after-segment");
    if (ex.orphanSegment)
        probe("orphan-segment");
    if (ex.abortedOpen)
        probe("aborted-open-message");
    if (ex.dupFirstWhileOpen)
        probe("first-segment-while-open");
    if (ex.unknown)
        probe("model-unspecified");
    if (ex.tecmp)
        probe("tecmp-frame");
    if (!ex.cmp && !ex.tecmp)
        probe("undersized-buffer");
    if (ex.cmp && ex.pk.size() >= 2)
        probe("aggregated-frame");
    if (!f.pristine)
        probe("faulted-frame-delivered");

    // ---------------- C02: generic safety of the call
    if (is("C02"))
    {
        if (out.size() > n / 12)
            violate("out.too-many", std::to_string(out.size()) + " packets from " + std::to_string(n) + " bytes");
        if (nullPacket)
            violate("out.null-packet", "null packet pointer returned");
        for (size_t i = 0; i < obs.size(); ++i)
            if (!lib::isNull(out[i]) && !obs[i].hasPayload)
                violate("out.null-payload", "packet " + std::to_string(i) + " has no payload object");
        for (size_t i = 0; i < out.size(); ++i)
            if (!lib::isNull(out[i]) && kept.size() < 400)
                kept.push_back(Kept{out[i], lib::digest(out[i])});
        if ((res.deliveries & 3) == 0)
            checkKept(false);
    }
    else if (keepAll)
    {
        // (C19, instances engine: every family keeps what the decoder returned and looks at it again later - after chunks
        // that ran on threads which have ended since)
        for (size_t i = 0; i < out.size(); ++i)
            if (!lib::isNull(out[i]) && kept.size() < 200)
                kept.push_back(Kept{out[i], lib::digest(out[i])});
        if ((res.deliveries & 7) == 0)
            checkKept(false);
    }
    // ---------------- C03: views of valid packets
    if (is("C03"))
    {
        for (auto& o : obs)
            if (!o.viewErr.empty())
                violate("view.oob." + o.viewErr, "accessor view leaves the payload (" + std::to_string(o.payload.size()) + " bytes, mtype " +
                                                     model::hex(o.mtype) + " ptype " + model::hex(o.ptype) + ")");
        for (auto& o : obs)
            if (o.valid && o.typed.cls)
                probe("typed-valid-packet");
    }
    // ---------------- C01: per-endpoint order
    if (is("C01"))
    {
        for (auto& o : obs)
        {
            Endpoint e{o.dev, o.stream};
            auto& q = expectQueue[e];
            if (q.empty())
            {
                violate("rt.count", "unexpected extra packet on endpoint " + model::hex(e.key()));
                continue;
            }
            std::string why;
            std::string r = model::comparePacket(q.front(), o, &why);
            if (!r.empty())
            {
                if (r == "validity.must-valid")
                    r = "marked-invalid";
                violate("rt." + r, "message " + std::to_string(q.front().msgId) + ": " + why);
            }
            q.pop_front();
        }
    }
    if (relayEnc)
        relay(out, obs);
    // ---------------- C04 / C05: strict comparison with the reference decoder
    if ((is("C04") || is("C05")) && ex.cmp && !ex.unknown)
    {
        const std::string pre = is("C04") ? "wire." : "reasm.";
        std::string cls;
        if (is("C05"))
        {
            cls = ex.wrapInside ? "/counter-wrap" : ex.msgHadTrailing ? "/trailing-bytes" : ex.msgHadZeroLen ? "/zero-length-segment" : "/plain";
        }
        if (obs.size() < ex.pk.size())
            violate(pre + (is("C04") ? "count" : "not-delivered") + cls,
                    "decode returned " + std::to_string(obs.size()) + " packets, the wire holds " + std::to_string(ex.pk.size()));
        else if (obs.size() > ex.pk.size() && !ex.prefixOnly)
            violate(pre + (is("C04") ? "count" : (ex.lastSegmentSeen ? "duplicate" : "early")) + cls,
                    "decode returned " + std::to_string(obs.size()) + " packets, the wire holds " + std::to_string(ex.pk.size()));
        for (size_t i = 0; i < std::min(obs.size(), ex.pk.size()); ++i)
        {
            std::string why;
            std::string r = model::comparePacket(ex.pk[i], obs[i], &why, is("C04"));
            if (!r.empty())
                violate(pre + r + cls, "packet " + std::to_string(i) + ": " + why);
        }
    }
    // ---------------- C05: end-to-end expectation attached to the frame by its sender
    if (is("C05") && f.expectKnown && f.pristine)
    {
        if (obs.size() != f.expect.size())
            violate(obs.size() < f.expect.size() ? "reasm.not-delivered/e2e" : "reasm.early/e2e",
                    "sender expects " + std::to_string(f.expect.size()) + " packet(s) at this frame, decoder returned " + std::to_string(obs.size()));
        for (size_t i = 0; i < std::min(obs.size(), f.expect.size()); ++i)
        {
            std::string why;
            std::string r = model::comparePacket(f.expect[i], obs[i], &why, false);
            if (!r.empty())
                violate("reasm." + r + "/e2e", "message " + std::to_string(f.expect[i].msgId) + ": " + why);
        }
    }
    // ---------------- C06: safety and recovery under faults
    if (is("C06"))
    {
        for (auto& o : obs)
        {
            Endpoint e{o.dev, o.stream};
            uint64_t h = hashObsAsSent(o);
            auto it = sentHashes.find(e);
            if (!o.valid || it == sentHashes.end() || !it->second.count(h))
                violate("fault.corrupt-delivery",
                        "delivered packet on endpoint " + model::hex(e.key()) + " (" + std::to_string(o.payload.size()) +
                            " bytes, ts " + model::hex(o.ts) + ") equals no message that was sent");
        }
        if (ex.cmp)
        {
            auto& arr = arrivals[ex.ep];
            arr.emplace_back(f.frameId, f.pristine);
            if (f.pristine)
            {
                for (int mi : f.completes)
                {
                    const SentMsg& m = sent[mi];
                    const size_t k = m.frameIds.size();
                    if (arr.size() < k)
                        continue;
                    bool clean = true;
                    for (size_t j = 0; j < k && clean; ++j)
                    {
                        auto& a = arr[arr.size() - k + j];
                        clean = a.second && a.first == m.frameIds[j];
                    }
                    if (!clean)
                        continue;
                    probe("recovery-demanded");
                    bool found = false;
                    for (auto& o : obs)
                        if (hashObsAsSent(o) == m.hash)
                            found = true;
                    if (!found)
                        violate("fault.no-recovery",
                                "a message whose " + std::to_string(k) + " frame(s) arrived complete, in order and uninterrupted was not delivered");
                }
            }
        }
    }
    // ---------------- C15: TECMP conversion
    if (is("C15") && ex.tecmp)
    {
        const model::TecmpExpect& te = ex.tecmpExp;
        if (!te.unspecified)
        {
            if (obs.size() != te.pk.size())
                violate(te.pk.empty() ? "tecmp.unexpected-packet" : "tecmp.count",
                        "TECMP frame of " + std::to_string(n) + " bytes: got " + std::to_string(obs.size()) + " packets, expected " +
                            std::to_string(te.pk.size()));
            for (size_t i = 0; i < std::min(obs.size(), te.pk.size()); ++i)
            {
                std::string why;
                std::string r = model::compareTecmp(te.pk[i], obs[i], &why);
                if (!r.empty())
                    violate("tecmp." + r, "packet " + std::to_string(i) + ": " + why);
            }
            if (!te.pk.empty())
                probe("tecmp-converted", te.pk.size());
            else
                probe("tecmp-rejected");
        }
        else
            probe("tecmp-unspecified");
        // the static entry point must agree with the routed one
        uint8_t* b2 = nullptr;
#if defined(SIM_VARIANT_SCHED)
        if (shareInput && n)
            b2 = const_cast<uint8_t*>(sched::internInput(f.bytes.data(), n));
#endif
        const bool b2Shared = b2 != nullptr;
        if (!b2Shared)
        {
            b2 = new uint8_t[n ? n : 1];
            memcpy(b2, f.bytes.data(), n);
        }
        auto direct = lib::Dec::tecmpDecode(b2, n);
        // the same storage decoded once more: still the packets of the message that was put there (a decoder has no
        // business writing to its input; a second look at the same capture buffer is what a replaying tool does)
        auto again = lib::Dec::tecmpDecode(b2, n);
        const bool inputWritten = n && memcmp(b2, f.bytes.data(), n) != 0;
        if (!b2Shared)
            delete[] b2;
        res.apiCalls += 2;
        if (inputWritten)
            violate("tecmp.input-written", "TECMP::Decoder::Decode modified the buffer it was given");
        if (again.size() != direct.size())
            violate("tecmp.redecode", "decoding the same buffer a second time returns " + std::to_string(again.size()) + " packets, the first time " +
                                          std::to_string(direct.size()));
        else
            for (size_t i = 0; i < direct.size(); ++i)
                if (lib::digest(direct[i]) != lib::digest(again[i]))
                {
                    violate("tecmp.redecode", "decoding the same buffer a second time returns a different packet " + std::to_string(i));
                    break;
                }
        if (direct.size() != out.size())
            violate("tecmp.count", "TECMP::Decoder::Decode and Decoder::decode disagree on the number of packets");
        else
            for (size_t i = 0; i < direct.size(); ++i)
                if (lib::digest(direct[i]) != lib::digest(out[i]))
                    violate("tecmp.field.paths-differ", "TECMP::Decoder::Decode and Decoder::decode return different packets");
    }
    if (ref.st.size() >= 64 && !probed64)
    {
        size_t open = 0;
        for (auto& kv : ref.st)
            open += kv.second.open && !kv.second.unknown;
        if (open >= 64)
        {
            probed64 = true;
            probe("64-or-more-endpoints-mid-message-at-once");
        }
    }
    // ---------------- C17: pending table
    if (is("C17"))
    {
        std::set<Endpoint> must, either;
        ref.pendingSets(must, either);
        auto pend = dec->pending();
        res.apiCalls++;
        std::set<Endpoint> have;
        for (auto& p : pend)
        {
            Endpoint e{p.dev, p.stream};
            have.insert(e);
            if (!must.count(e) && !either.count(e))
                violate("pend.extra",
                        "decoder holds reassembly state for endpoint " + model::hex(e.key()) + " (" + std::to_string(p.bytes) +
                            " bytes) although no message is in progress there");
            else if (must.count(e) && p.bytes > ref.boundFor(e))
                violate("pend.bytes",
                        "endpoint " + model::hex(e.key()) + " buffers " + std::to_string(p.bytes) + " bytes, segments received so far amount to " +
                            std::to_string(ref.boundFor(e)));
        }
        for (auto& e : must)
            if (!have.count(e))
                violate("pend.missing", "no reassembly state for endpoint " + model::hex(e.key()) + " although a message is in progress");
        if (!must.empty())
            probe("pending-nonempty");
        if (must.size() >= 2)
            probe("pending-multi-endpoint");
    }
    // ---------------- C18: projection differential
    if (is("C18") && ex.cmp)
    {
        auto& pd = proj[ex.ep];
        if (!pd)
            pd = std::make_unique<lib::Dec>();
        uint8_t* b2 = new uint8_t[n ? n : 1];
        memcpy(b2, f.bytes.data(), n);
        auto pout = pd->decode(b2, n);
        delete[] b2;
        res.apiCalls++;
        if (pout.size() != out.size())
            violate("iso.count",
                    "shared decoder returned " + std::to_string(out.size()) + " packets for a frame of endpoint " + model::hex(ex.ep.key()) +
                        ", the decoder that saw only this endpoint " + std::to_string(pout.size()));
        else
            for (size_t i = 0; i < out.size(); ++i)
            {
                std::string why;
                if (!model::sameObs(obs[i], lib::observe(pout[i], false), &why))
                    violate("iso.packet", "packet " + std::to_string(i) + " differs from the isolated run in " + why);
            }
        if (proj.size() >= 2)
            probe("multi-endpoint-history");
    }
    if (is("C18") && !ex.cmp && !out.empty() && !ex.tecmp)
        violate("iso.count", "a buffer too short to be a frame produced packets");
    // ---------------- C16: status tracker
    if (statusEnabled)
    {
        for (size_t i = 0; i < out.size(); ++i)
        {
            if (lib::isNull(out[i]) || !obs[i].hasPayload)
                continue;
            devAlphabet.insert(obs[i].dev);
            if (model::RefStatus::isIf(obs[i]) && obs[i].payload.size() >= 4)
                ifAlphabet.insert(wire::rd32(obs[i].payload.data()));
            stat->update(out[i]);
            if (++statusUpdates == 257)
                probe("more-than-256-updates-of-one-tracker");
            res.apiCalls++;
            refStat.update(obs[i]);
            if (is("C16"))
                compareStatus("update");
        }
    }
}

void World::compareStatus(const char* when)
{
    if (!is("C16"))
        return;  // other properties' runs (C20) only use the tracker as a consumer of packets
    const size_t cnt = stat->devCount();
    if (cnt != refStat.devs.size())
    {
        violate("status.count", std::string("after ") + when + ": " + std::to_string(cnt) + " devices tracked, model has " +
                                    std::to_string(refStat.devs.size()));
        return;
    }
    std::set<size_t> usedIdx;
    std::set<uint16_t> ids = devAlphabet;
    ids.insert(static_cast<uint16_t>(0xFFFE));
    for (auto& kv : refStat.devs)
        ids.insert(kv.first);
    for (uint16_t id : ids)
    {
        size_t idx = stat->idxDev(id);
        auto it = refStat.devs.find(id);
        if (it == refStat.devs.end())
        {
            if (idx != cnt)
                violate("status.index", std::string("after ") + when + ": lookup of absent device " + model::hex(id) + " returned index " +
                                            std::to_string(idx) + " instead of the count " + std::to_string(cnt));
            continue;
        }
        if (idx >= cnt)
        {
            violate("status.index", std::string("after ") + when + ": device " + model::hex(id) + " not found");
            continue;
        }
        if (!usedIdx.insert(idx).second)
            violate("status.index", "two device ids map to index " + std::to_string(idx));
        std::string why;
        lib::Obs got = stat->devPacket(idx, (idx & 1) != 0);
        if (!model::sameObs(got, it->second.pkt, &why))
            violate("status.packet", std::string("after ") + when + ": device " + model::hex(id) + " does not hold its latest status packet (" + why + ")");
        // interfaces
        const size_t icnt = stat->ifCount(idx);
        if (icnt != it->second.ifs.size())
        {
            violate("status.iface.count", std::string("after ") + when + ": device " + model::hex(id) + " tracks " + std::to_string(icnt) +
                                              " interfaces, model has " + std::to_string(it->second.ifs.size()));
            continue;
        }
        std::set<uint32_t> iids = ifAlphabet;
        iids.insert(0xFFFFFFF0u);
        std::set<size_t> usedI;
        for (uint32_t iid : iids)
        {
            size_t j = stat->idxIf(idx, iid);
            auto jt = it->second.ifs.find(iid);
            if (jt == it->second.ifs.end())
            {
                if (j != icnt)
                    violate("status.iface.index", "lookup of absent interface " + model::hex(iid) + " returned " + std::to_string(j));
                continue;
            }
            if (j >= icnt)
            {
                violate("status.iface.index", "interface " + model::hex(iid) + " of device " + model::hex(id) + " not found");
                continue;
            }
            if (!usedI.insert(j).second)
                violate("status.iface.index", "two interface ids map to index " + std::to_string(j));
            if (stat->ifId(idx, j) != iid)
                violate("status.iface.index", "entry " + std::to_string(j) + " reports interface id " + model::hex(stat->ifId(idx, j)) + ", looked up " + model::hex(iid));
            lib::Obs gi = stat->ifPacket(idx, j, (j & 1) != 0);
            if (!model::sameObs(gi, jt->second, &why))
                violate("status.iface.packet", "interface " + model::hex(iid) + " of device " + model::hex(id) + " does not hold its latest packet (" + why + ")");
        }
        if (icnt >= 2)
            probe("device-with-multiple-interfaces");
        if (icnt >= 33)
            probe("device-with-33-or-more-interfaces");
    }
    if (cnt >= 2)
        probe("multiple-devices-tracked");
    if (cnt >= 33)
        probe("33-or-more-devices-tracked");
}

void World::finish()
{
    if (is("C01"))
    {
        for (auto& kv : expectQueue)
            if (!kv.second.empty())
                violate("rt.count", std::to_string(kv.second.size()) + " message(s) of endpoint " + model::hex(kv.first.key()) +
                                        " were never delivered (first: message " + std::to_string(kv.second.front().msgId) + ")");
    }
    if (is("C17") && rxEnabled && plan.cfgGet("tail", 0))
    {
        auto pend = dec->pending();
        std::set<Endpoint> must, either;
        ref.pendingSets(must, either);
        if (must.empty() && either.empty() && !pend.empty())
            violate("pend.not-empty-at-quiescence", std::to_string(pend.size()) + " reassembly entries left after all messages completed");
        if (pend.empty())
            probe("quiescent-empty");
        // "... so traffic without open messages leaves the decoder's memory at its baseline however long it runs":
        // from a quiescent decoder, thousands of frames that open nothing (stray continuation and last segments on known
        // and unknown endpoints, unsegmented messages, rejected frames) - the heap must not have grown afterwards.
        if (pend.empty() && must.empty() && either.empty() && liveHeapBytes() >= 0 && plan.cfgGet("straysoak", 0))
        {
            const uint64_t seed = static_cast<uint64_t>(plan.cfgGet("straysoak", 0));
            std::vector<Endpoint> eps;
            for (auto& kv : nodes)
                eps.push_back(Endpoint{kv.second.dev, kv.second.stream});
            eps.push_back(Endpoint{0x7777, 0x77});
            auto soak = [&](size_t count, uint64_t salt)
            {
                for (size_t i = 0; i < count; ++i)
                {
                    const uint64_t r = mix64(seed + salt * 1000003 + i);
                    const Endpoint ep = (r & 3) == 0 ? Endpoint{static_cast<uint16_t>(r >> 16), static_cast<uint8_t>(r >> 8)} : eps[(r >> 4) % eps.size()];
                    const size_t len = (r >> 32) % 40;
                    Bytes f(wire::CMP_HDR + wire::MSG_HDR + len, static_cast<uint8_t>(r >> 40));
                    wire::CmpHdr h;
                    h.version = 1;
                    h.dev = ep.dev;
                    h.stream = ep.stream;
                    h.mtype = 1;
                    h.ctr = static_cast<uint16_t>(r >> 44);
                    wire::writeCmpHdr(f.data(), h);
                    wire::MsgHdr m;
                    m.ts = i;
                    m.id32 = 5;
                    const unsigned kind = (r >> 12) % 8;
                    m.flags = kind < 3 ? wire::SEG_MID : (kind < 6 ? wire::SEG_LAST : wire::SEG_NONE);
                    m.ptype = 0x20;
                    m.plen = static_cast<uint16_t>(kind == 7 ? len + 9 : len);  // kind 7: declares more than the frame holds (rejected)
                    wire::writeMsgHdr(f.data() + wire::CMP_HDR, m);
                    (void) dec->decode(f.data(), f.size());
                }
            };
            soak(300, 1);  // warm-up: whatever one stray legitimately leaves (nothing) has been paid for
            const int64_t before = liveHeapBytes();
            soak(3000, 2);
            const int64_t after = liveHeapBytes();
            res.apiCalls += 3300;
            probe("stray-soak");
            if (!dec->pending().empty())
                violate("pend.extra", "frames that open nothing left " + std::to_string(dec->pending().size()) + " pending entries");
            else if (after - before > 16384)
                violate("pend.heap-growth", "3000 frames that open no message grew the heap by " + std::to_string(after - before) + " bytes (pending table empty)");
        }
    }
    if (statusEnabled && stat)
        ev(stat->digestAll());  // what the tracker holds at the end is an output of the run (C20: fill differential)
    if (is("C02") && rxEnabled)
    {
        checkKept(true);
        dec.reset();  // packets must outlive the decoder
        checkKept(true);
        probe("kept-packets", kept.size());
        dec = std::make_unique<lib::Dec>();
    }
}

// C01 for packets that came out of a decoder (whole or reassembled): encoded again by another capture module with
// another frame size and decoded by a second receiver, they are the same packets.
void World::relay(const std::vector<lib::PacketRef>& out, const std::vector<lib::Obs>& obs)
{
    std::vector<lib::PacketRef> batch;
    std::vector<const lib::Obs*> want;
    for (size_t i = 0; i < out.size(); ++i)
        if (!lib::isNull(out[i]) && obs[i].hasPayload && obs[i].valid && obs[i].plen > 0)
        {
            batch.push_back(out[i]);
            want.push_back(&obs[i]);
        }
    if (batch.empty())
        return;
    ++relayCalls;
    const uint64_t r = mix64(relayCalls * 0x9E37 + static_cast<uint64_t>(plan.cfgGet("relay", 0)));
    size_t maxB;
    switch ((r >> 4) & 3)
    {
        case 0:
            maxB = 25 + (r >> 8) % 40;
            break;
        case 1:
            maxB = 64 + (r >> 8) % 300;
            break;
        case 2:
            maxB = 1500;
            break;
        default:
            maxB = 70000;
            break;
    }
    // tiny frames and large packets: keep the relay's frame count in bounds
    size_t total = 0;
    for (auto* o : want)
        total += o->plen;
    if (maxB < 64 && total > 20000)
        maxB = 1500;
    const size_t minB = ((r >> 20) % 3 == 0) ? std::min<size_t>(maxB, (r >> 24) % 100) : 0;
    const int mode = static_cast<int>((r >> 40) % 3);
    std::vector<Bytes> frames = relayEnc->encodeRefs(batch, minB, maxB, mode);
    res.apiCalls++;
    probe("relayed-packets", batch.size());
    std::vector<lib::Obs> got;
    for (auto& f : frames)
    {
        evBytes(f.data(), f.size(), "relay-frame");
        for (auto& p : relayDec->decode(f.data(), f.size()))
            if (!lib::isNull(p))
                got.push_back(lib::observe(p, false));
    }
    if (got.size() != want.size())
    {
        violate("relay.count", std::to_string(want.size()) + " decoded packets relayed with max " + std::to_string(maxB) + ", the second receiver got " +
                                   std::to_string(got.size()));
        return;
    }
    for (size_t i = 0; i < got.size(); ++i)
    {
        const lib::Obs& w = *want[i];
        ExpPacket e;
        e.dev = 0x7E1A;
        e.stream = 0x7E;
        e.version = w.version;
        e.mtype = w.mtype;
        e.ptype = w.ptype;
        e.ts = w.ts;
        e.id32 = wire::idKindOf(w.mtype) == wire::ID_INTERFACE ? w.ifid : w.vendor;
        e.flags = w.flags;
        e.payload = w.payload;
        std::string why;
        std::string rr = model::comparePacket(e, got[i], &why, false);
        if (rr.empty() && !got[i].valid)
        {
            rr = "marked-invalid";
            why = "a packet the first receiver returned as valid comes back invalid";
        }
        if (!rr.empty())
            violate("relay." + rr, "relayed packet " + std::to_string(i) + " (max " + std::to_string(maxB) + "): " + why);
        if (got[i].segType != 0 || w.plen > maxB - 24)
            probe("relayed-segmented");
    }
}

// ---------------------------------------------------------------------------------------------- simple ops
void World::opLife(const Item& op)
{
    // the object is copied / moved / assigned / swapped (adapter.cpp); its logical state - and so every model - is unchanged
    const int how = static_cast<int>(op.get("how", 1));
    switch (op.get("obj", 0))
    {
        case 0:
            if (!rxEnabled || !dec)
                return;
            dec->lifecycle(how);
            dec->setPacketLife(plife);
            decShadowSeen = dec->shadowDiverged();
            break;
        case 1:
        {
            Node& n = nodeOf(op);
            if (!n.enc)
                return;
            n.enc->lifecycle(how);
            if (is("C09") && (n.enc->dev() != n.dev || n.enc->stream() != n.stream))
                violate("api.ids", "getDeviceId()/getStreamId() do not return the configured ids after a copy / move of the encoder");
            if (is("C09") && n.encodeCalls && n.enc->counter() != n.lastCtr)
                violate("api.counter", "getSequenceCounter() is " + std::to_string(n.enc->counter()) + " after a copy / move of the encoder, last frame carried " +
                                           std::to_string(n.lastCtr));
            break;
        }
        default:
            if (!stat)
                return;
            stat->lifecycle(how);
            if (is("C16"))
                compareStatus("a copy / move of the tracker");
            break;
    }
    res.apiCalls++;
    fault("object-copied-or-moved");
    ev(0x11FE + how);
}

void World::opRxRestart(const Item&)
{
    if (!rxEnabled)
        return;
    dec.reset();
    dec = std::make_unique<lib::Dec>();
    dec->setPacketLife(plife);
    decShadowSeen = 0;
    ref.reset();
    proj.clear();
    fault("receiver-restart");
    if (is("C02"))
        checkKept(true);
    ev(0xAA55);
}

void World::opStatus(const Item& op)
{
    if (!statusEnabled)
        return;
    const uint16_t d = static_cast<uint16_t>(op.get("dev"));
    const uint32_t i = static_cast<uint32_t>(op.get("ifid"));
    devAlphabet.insert(d);
    ifAlphabet.insert(i);
    res.apiCalls++;
    switch (op.get("what"))
    {
        case 1:
            if (refStat.devs.count(d))
                probe("remove-known-device");
            stat->removeDev(d);
            refStat.removeDev(d);
            compareStatus("removeDeviceById");
            break;
        case 2:
            if (refStat.devs.count(d) && refStat.devs[d].ifs.count(i))
                probe("remove-known-interface");
            stat->removeIf(d, i);
            refStat.removeIf(d, i);
            compareStatus("removeInterfaceById");
            break;
        default:
            stat->clear();
            refStat.clear();
            probe("status-clear");
            compareStatus("clear");
            break;
    }
    ev(0x57A7);
}

void World::opStatUpd(const Item& op)
{
    if (!statusEnabled)
        return;
    const int kind = static_cast<int>(op.get("kind", wire::K_IFSTAT));
    uint8_t mt = 3, pt = 2;
    wire::typeOfKind(static_cast<wire::Kind>(kind), mt, pt);
    if (kind == wire::K_GENERIC)
    {
        mt = static_cast<uint8_t>(op.get("mtype", 3));
        pt = static_cast<uint8_t>(op.get("ptype", 3));
        if (mt == 0)
            mt = 3;
        if (pt == 0)
            pt = 3;
        if (wire::kindOf(mt, pt) != wire::K_GENERIC)
            pt = 0x20;
    }
    Bytes body = makePayload(kind, static_cast<size_t>(std::max<int64_t>(1, op.get("len", 40))), static_cast<uint32_t>(op.get("id", 1)));
    if (kind == wire::K_IFSTAT && op.has("pifid") && body.size() >= 4)
        wire::wr32(body.data(), static_cast<uint32_t>(op.get("pifid")));
    // non-canonical but harmless content: e.g. an interface status byte above 2, a non-zero reserved byte
    // (only inside the fixed part: the inner lengths stay consistent, the typed accessors of the stored copy stay in bounds)
    const size_t fixedPart = std::max<size_t>(5, std::min(body.size(), wire::fixedSize(static_cast<wire::Kind>(kind))));
    if (op.has("p1o") && body.size() > 4 && kind != wire::K_GENERIC)
        body[4 + static_cast<size_t>(std::max<int64_t>(0, op.get("p1o"))) % (fixedPart - 4)] = static_cast<uint8_t>(op.get("p1v"));
    // C20 only (no oracle looks at what the tracker makes of it): an object that claims to be an interface status
    // message but is shorter than that class's header, built with the generic Payload constructor. What the tracker
    // does with it is unspecified - but it is a function of the object's bytes, not of stale memory.
    const bool shortGeneric = is("C20") && kind == wire::K_IFSTAT && op.has("cut");
    if (shortGeneric)
        body.resize(4 + static_cast<size_t>(op.get("cut")) % 32);
    lib::MsgSpec sp;
    sp.version = 1;
    sp.mtype = mt;
    sp.ptype = pt;
    sp.ts = static_cast<uint64_t>(op.get("ts", 0));
    sp.id32 = static_cast<uint32_t>(op.get("ifid", 0));
    sp.flags = static_cast<uint8_t>(op.get("flags", 0)) & static_cast<uint8_t>(~wire::FLAG_ERR_IN_PAYLOAD);
    sp.build = op.get("build", 2) == 1 ? 2 : static_cast<int>(op.get("build", 2));  // 0 generic Payload, 2 typed class (never the parsing constructor)
    if (shortGeneric)
        sp.build = 0;
    sp.payload = body.data();
    sp.len = body.size();
    // (junkx: another value for the id field that does NOT apply to this message type - the interface id of a status message)
    sp.junk = mix64(static_cast<uint64_t>(op.get("id", 1)) * 77 + 1) ^ (static_cast<uint64_t>(op.get("junkx", 0)) << 33);
    const uint16_t dev = static_cast<uint16_t>(op.get("dev", 1));
    lib::PacketRef ref = lib::makePacket(sp, dev, static_cast<uint8_t>(op.get("stream", 0)), static_cast<uint16_t>(op.get("seq", 0)));
    lib::Obs o = lib::observe(ref, false);
    devAlphabet.insert(dev);
    if (model::RefStatus::isIf(o) && o.payload.size() >= 4)
        ifAlphabet.insert(wire::rd32(o.payload.data()));
    stat->update(ref);
    res.apiCalls++;
    refStat.update(o);
    probe("status-update-with-api-built-packet");
    ev(obsDigestPublic(o));
    if (is("C16"))
        compareStatus("update(api-built packet)");
}

void World::opNoise(const Item& op)
{
    Node& node = nodeOf(op);
    size_t len = static_cast<size_t>(std::min<int64_t>(std::max<int64_t>(0, op.get("len", 0)), 70000));
    std::vector<InFlight> fr(1);
    fr[0].bytes = contentBytes(static_cast<uint32_t>(op.get("id", 1)), 0, len);
    if (op.has("b0") && len)
        fr[0].bytes[0] = static_cast<uint8_t>(op.get("b0"));
    fr[0].pristine = false;
    fault("noise");
    emit(op, node, fr);
}

void World::opStale(const Item& op)
{
    if (history.empty())
        return;
    Node& node = nodeOf(op);
    std::vector<InFlight> fr(1);
    fr[0].bytes = history[static_cast<size_t>(std::max<int64_t>(0, op.get("idx", 0))) % history.size()];
    fr[0].pristine = false;
    fault("stale-replay");
    emit(op, node, fr);
}

RunResult execPlan(const Plan& plan)
{
    simClockEnable(true);
    simClockSet(0);
    RunResult r;
    {
        World w(plan);
        w.run();
        r = std::move(w.res);
    }
    if (simClockReads())
        r.probes["wall-clock-reads-during-the-run"] += simClockReads();
    simClockEnable(false);
    return r;
}

}  // namespace sim
