// adapter.cpp -- the only translation unit that includes library headers.
#include "adapter.h"

#include <cstring>
#include <list>
#include <algorithm>

#include <asam_cmp/analog_payload.h>
#include <asam_cmp/can_fd_payload.h>
#include <asam_cmp/can_payload.h>
#include <asam_cmp/capture_module_payload.h>
#include <asam_cmp/decoder.h>
#include <asam_cmp/encoder.h>
#include <asam_cmp/ethernet_payload.h>
#include <asam_cmp/interface_payload.h>
#include <asam_cmp/lin_payload.h>
#include <asam_cmp/packet.h>
#include <asam_cmp/status.h>
#include <asam_cmp/tecmp_decoder.h>

#include "wire.h"

using namespace ASAM::CMP;

namespace lib
{

static void (*g_preCall)() = nullptr;
void setPreCallHook(void (*hook)())
{
    g_preCall = hook;
}
static inline void preCall()
{
    if (g_preCall)
        g_preCall();
}

namespace
{

inline uint64_t fnv(const void* data, size_t n, uint64_t h)
{
    const uint8_t* p = static_cast<const uint8_t*>(data);
    for (size_t i = 0; i < n; ++i)
    {
        h ^= p[i];
        h *= 0x100000001b3ULL;
    }
    return h;
}
template <typename T>
inline uint64_t fnvv(T v, uint64_t h)
{
    return fnv(&v, sizeof(v), h);
}

uint32_t floatBits(float f)
{
    uint32_t u;
    memcpy(&u, &f, 4);
    return u;
}
float bitsFloat(uint32_t u)
{
    float f;
    memcpy(&f, &u, 4);
    return f;
}

View mkView(const void* ptr, uint64_t len, const uint8_t* raw, size_t n, const char* name, std::string& err)
{
    View v;
    v.len = len;
    if (ptr == nullptr)
    {
        v.off = -1;
        if (len != 0 && err.empty())
            err = std::string(name) + ".null-with-length";
        return v;
    }
    const uintptr_t a = reinterpret_cast<uintptr_t>(ptr);
    const uintptr_t r = reinterpret_cast<uintptr_t>(raw);
    v.off = static_cast<int64_t>(a) - static_cast<int64_t>(r);
    if (a < r || a > r + n || len > static_cast<uint64_t>(r + n - a))
    {
        if (err.empty())
            err = name;
    }
    return v;
}

template <typename CanT>
void observeCanBase(const CanT& c, Typed& t, const uint8_t* raw, size_t n, const char* cls, std::string& err)
{
    t.flags = c.getFlags();
    t.id = c.getId();
    t.rsvd = c.getRsvd();
    t.ide = c.getIde();
    t.crcSupport = c.getCrcSupport();
    t.errPos = c.getErrorPosition();
    t.dlc = c.getDlc();
    t.dataLen = c.getDataLength();
    (void) c.getFlag(CanPayloadBase::Flags::brs);
    t.data = mkView(c.getData(), t.dataLen, raw, n, (std::string(cls) + ".getData").c_str(), err);
}

void observeTyped(const Payload& pl, uint32_t typeCode, Typed& t, std::string& err)
{
    const uint8_t* raw = pl.getRawPayload();
    const size_t n = pl.getLength();
    switch (typeCode)
    {
        case PayloadType::can:
        {
            auto& c = static_cast<const CanPayload&>(pl);
            t.cls = wire::K_CAN;
            observeCanBase(c, t, raw, n, "can", err);
            t.rtr = c.getRtr();
            t.crc = c.getCrc();
            break;
        }
        case PayloadType::canFd:
        {
            auto& c = static_cast<const CanFdPayload&>(pl);
            t.cls = wire::K_CANFD;
            observeCanBase(c, t, raw, n, "canfd", err);
            t.rtr = c.getRrs();
            t.crc = c.getCrc();
            t.sbc = c.getSbc();
            t.sbcParity = c.getSbcParity();
            t.sbcSupport = c.getSbcSupport();
            break;
        }
        case PayloadType::lin:
        {
            auto& c = static_cast<const LinPayload&>(pl);
            t.cls = wire::K_LIN;
            t.flags = c.getFlags();
            (void) c.getFlag(LinPayload::Flags::wup);
            t.linId = c.getLinId();
            t.parity = c.getParityBits();
            t.checksum = c.getChecksum();
            t.dataLen = c.getDataLength();
            t.data = mkView(c.getData(), t.dataLen, raw, n, "lin.getData", err);
            break;
        }
        case PayloadType::ethernet:
        {
            auto& c = static_cast<const EthernetPayload&>(pl);
            t.cls = wire::K_ETH;
            t.flags = c.getFlags();
            (void) c.getFlag(EthernetPayload::Flags::fcsSupport);
            t.dataLen = c.getDataLength();
            t.data = mkView(c.getData(), t.dataLen, raw, n, "eth.getData", err);
            break;
        }
        case PayloadType::analog:
        {
            auto& c = static_cast<const AnalogPayload&>(pl);
            t.cls = wire::K_ANALOG;
            t.flags = c.getFlags();
            t.sampleDt = static_cast<uint16_t>(c.getSampleDt());
            t.unit = static_cast<uint8_t>(c.getUnit());
            t.interval = floatBits(c.getSampleInterval());
            t.offset = floatBits(c.getSampleOffset());
            t.scalar = floatBits(c.getSampleScalar());
            t.samples = static_cast<uint32_t>(c.getSamplesCount());
            const size_t sampleSize = c.getSampleDt() == AnalogPayload::SampleDt::aInt16 ? 2 : 4;
            t.dataLen = static_cast<uint32_t>(t.samples * sampleSize);
            t.data = mkView(c.getData(), static_cast<uint64_t>(c.getSamplesCount()) * sampleSize, raw, n, "analog.getData", err);
            break;
        }
        case PayloadType::cmStatMsg:
        {
            auto& c = static_cast<const CaptureModulePayload&>(pl);
            t.cls = wire::K_CMSTAT;
            t.uptime = c.getUptime();
            t.gmIdentity = c.getGmIdentity();
            t.gmClockQuality = c.getGmClockQuality();
            t.utcOffset = c.getCurrentUtcOffset();
            t.timeSource = c.getTimeSource();
            t.domain = c.getDomainNumber();
            t.gptpFlags = c.getGptpFlags();
            std::string_view sv[4] = {c.getDeviceDescription(), c.getSerialNumber(), c.getHardwareVersion(), c.getSoftwareVersion()};
            static const char* names[4] = {
                "cm.getDeviceDescription", "cm.getSerialNumber", "cm.getHardwareVersion", "cm.getSoftwareVersion"};
            for (int i = 0; i < 4; ++i)
            {
                t.str[i] = mkView(sv[i].data(), sv[i].size(), raw, n, names[i], err);
                if (err.empty())
                    t.strVal[i].assign(sv[i].data(), sv[i].size());
            }
            t.vendorLen = c.getVendorDataLength();
            t.vendor = mkView(c.getVendorData(), t.vendorLen, raw, n, "cm.getVendorData", err);
            auto vsv = c.getVendorDataStringView();
            (void) mkView(vsv.data(), vsv.size(), raw, n, "cm.getVendorDataStringView", err);
            break;
        }
        case PayloadType::ifStatMsg:
        {
            auto& c = static_cast<const InterfacePayload&>(pl);
            t.cls = wire::K_IFSTAT;
            t.ifId = c.getInterfaceId();
            t.msgTotalRx = c.getMsgTotalRx();
            t.msgTotalTx = c.getMsgTotalTx();
            t.msgDroppedRx = c.getMsgDroppedRx();
            t.msgDroppedTx = c.getMsgDroppedTx();
            t.errTotalRx = c.getErrorsTotalRx();
            t.errTotalTx = c.getErrorsTotalTx();
            t.ifType = c.getInterfaceType();
            t.ifStatus = static_cast<uint8_t>(c.getInterfaceStatus());
            t.featureMask = c.getFeatureSupportBitmask();
            t.streamCount = c.getStreamIdsCount();
            t.streams = mkView(c.getStreamIds(), t.streamCount, raw, n, "if.getStreamIds", err);
            t.vendorLen = c.getVendorDataLength();
            t.vendor = mkView(c.getVendorData(), t.vendorLen, raw, n, "if.getVendorData", err);
            break;
        }
        default:
            break;
    }
}

__attribute__((noinline)) bool payloadIsNull(const Packet& p)
{
    const Payload* volatile vp = &p.getPayload();
    return vp == nullptr;
}

Obs observePacket(const Packet& p, bool typedViews)
{
    Obs o;
    o.version = p.getVersion();
    o.dev = p.getDeviceId();
    o.stream = p.getStreamId();
    o.seq = p.getSequenceCounter();
    o.ts = p.getTimestamp();
    o.ifid = p.getInterfaceId();
    o.vendor = p.getVendorId();
    o.flags = p.getCommonFlags();
    o.segType = static_cast<uint8_t>(p.getSegmentType());
    o.plen = p.getPayloadLength();
    o.valid = p.isValid();
    if (o.plen == 0 && !o.valid && payloadIsNull(p))
    {
        o.hasPayload = false;
        return o;
    }
    o.hasPayload = true;
    const Payload& pl = p.getPayload();
    o.mtype = static_cast<uint8_t>(p.getMessageType());
    o.ptype = p.getPayloadType();
    o.typeCode = pl.getType().getType();
    const uint8_t* raw = pl.getRawPayload();
    const size_t n = pl.getLength();
    if (n)
        o.payload.assign(raw, raw + n);
    (void) pl.isValid();
    (void) pl.getMessageType();
    (void) pl.getRawPayloadType();
    if (typedViews && o.valid)
        observeTyped(pl, o.typeCode, o.typed, o.viewErr);
    return o;
}

}  // namespace

Obs observe(const PacketRef& ref, bool typedViews)
{
    preCall();
    return observePacket(*static_cast<const Packet*>(ref.get()), typedViews);
}

bool isNull(const PacketRef& p)
{
    return p.get() == nullptr;
}

static uint64_t digestObs(const Obs& o)
{
    uint64_t h = 0xcbf29ce484222325ULL;
    h = fnvv(o.hasPayload, h);
    h = fnvv(o.valid, h);
    h = fnvv(o.version, h);
    h = fnvv(o.dev, h);
    h = fnvv(o.stream, h);
    h = fnvv(o.seq, h);
    h = fnvv(o.mtype, h);
    h = fnvv(o.ptype, h);
    h = fnvv(o.typeCode, h);
    h = fnvv(o.ts, h);
    h = fnvv(o.ifid, h);
    h = fnvv(o.vendor, h);
    h = fnvv(o.flags, h);
    h = fnvv(o.segType, h);
    h = fnvv(o.plen, h);
    h = fnv(o.payload.data(), o.payload.size(), h);
    const Typed& t = o.typed;
    h = fnvv(t.cls, h);
    h = fnvv(t.flags, h);
    h = fnvv(t.id, h);
    h = fnvv(t.crc, h);
    h = fnvv(t.dlc, h);
    h = fnvv(t.dataLen, h);
    h = fnvv(t.data.off, h);
    h = fnvv(t.linId, h);
    h = fnvv(t.checksum, h);
    h = fnvv(t.samples, h);
    for (int i = 0; i < 4; ++i)
    {
        h = fnvv(t.str[i].off, h);
        h = fnvv(t.str[i].len, h);
    }
    h = fnvv(t.vendor.off, h);
    h = fnvv(t.vendorLen, h);
    h = fnvv(t.ifId, h);
    h = fnvv(t.msgTotalRx, h);
    h = fnvv(t.errTotalRx, h);
    h = fnvv(t.streamCount, h);
    h = fnvv(t.streams.off, h);
    return h;
}

uint64_t digest(const PacketRef& p)
{
    return digestObs(observe(p, true));
}

// ------------------------------------------------------------------ encoder
struct Enc::Impl
{
    Encoder enc;
};

Enc::Enc()
    : d(new Impl)
{
}
Enc::~Enc()
{
    delete d;
}
void Enc::setDev(uint16_t v)
{
    d->enc.setDeviceId(v);
}
void Enc::setStream(uint8_t v)
{
    d->enc.setStreamId(v);
}
void Enc::restart()
{
    d->enc.restart();
}
uint16_t Enc::dev() const
{
    return d->enc.getDeviceId();
}
uint8_t Enc::stream() const
{
    return d->enc.getStreamId();
}
uint16_t Enc::counter() const
{
    return d->enc.getSequenceCounter();
}

static Packet buildPacket(const MsgSpec& m)
{
    const auto mt = static_cast<CmpHeader::MessageType>(m.mtype);
    Packet pk;
    const wire::Kind kind = wire::kindOf(m.mtype, m.ptype);
    int build = m.build;
    if (build == 2 && kind == wire::K_GENERIC)
        build = 0;
    if (build == 1)
    {
        Bytes raw(wire::MSG_HDR + m.len);
        wire::MsgHdr h;
        h.ts = m.ts;
        h.id32 = m.id32;
        h.flags = m.flags;
        h.ptype = m.ptype;
        h.plen = static_cast<uint16_t>(m.len);
        wire::writeMsgHdr(raw.data(), h);
        if (m.len)
            memcpy(raw.data() + wire::MSG_HDR, m.payload, m.len);
        pk = Packet(mt, raw.data(), raw.size());
    }
    else
    {
        if (build == 2)
        {
            switch (kind)
            {
                case wire::K_CAN:
                    pk.setPayload(CanPayload(m.payload, m.len));
                    break;
                case wire::K_CANFD:
                    pk.setPayload(CanFdPayload(m.payload, m.len));
                    break;
                case wire::K_LIN:
                    pk.setPayload(LinPayload(m.payload, m.len));
                    break;
                case wire::K_ANALOG:
                    pk.setPayload(AnalogPayload(m.payload, m.len));
                    break;
                case wire::K_ETH:
                    pk.setPayload(EthernetPayload(m.payload, m.len));
                    break;
                case wire::K_CMSTAT:
                    pk.setPayload(CaptureModulePayload(m.payload, m.len));
                    break;
                case wire::K_IFSTAT:
                    pk.setPayload(InterfacePayload(m.payload, m.len));
                    break;
                default:
                    break;
            }
        }
        else
        {
            pk.setPayload(Payload(PayloadType(mt, m.ptype), m.payload, m.len));
        }
        pk.setTimestamp(m.ts);
        pk.setCommonFlags(m.flags);
    }
    // ids: the one that applies gets the logical value, the other one junk the encoder must not emit
    const uint32_t junkId = static_cast<uint32_t>(m.junk >> 32) | 1u;
    switch (wire::idKindOf(m.mtype))
    {
        case wire::ID_INTERFACE:
            pk.setInterfaceId(m.id32);
            pk.setVendorId(static_cast<uint16_t>(junkId));
            break;
        case wire::ID_VENDOR:
            pk.setVendorId(static_cast<uint16_t>(m.id32));
            pk.setInterfaceId(junkId);
            break;
        default:
            pk.setVendorId(static_cast<uint16_t>(junkId));
            pk.setInterfaceId(junkId);
            break;
    }
    pk.setVersion(m.version);
    // fields the encoder must override / ignore
    pk.setDeviceId(static_cast<uint16_t>(m.junk));
    pk.setStreamId(static_cast<uint8_t>(m.junk >> 16));
    pk.setSequenceCounter(static_cast<uint16_t>(m.junk >> 24));
    return pk;
}

PacketRef makePacket(const MsgSpec& m, uint16_t dev, uint8_t stream)
{
    preCall();
    auto p = std::make_shared<Packet>(buildPacket(m));
    p->setDeviceId(dev);
    p->setStreamId(stream);
    p->setSequenceCounter(0);
    return std::static_pointer_cast<void>(p);
}

std::vector<Bytes> Enc::encode(const std::vector<MsgSpec>& batch, size_t minBytes, size_t maxBytes, int mode)
{
    DataContext ctx;
    preCall();
    ctx.minBytesPerMessage = minBytes;
    ctx.maxBytesPerMessage = maxBytes;
    if (mode == 2 && batch.size() != 1)
        mode = 0;
    switch (mode)
    {
        case 1:
        {
            std::vector<std::shared_ptr<Packet>> v;
            v.reserve(batch.size());
            for (auto& m : batch)
                v.push_back(std::make_shared<Packet>(buildPacket(m)));
            return d->enc.encode(v.begin(), v.end(), ctx);
        }
        case 2:
        {
            Packet p = buildPacket(batch[0]);
            return d->enc.encode(p, ctx);
        }
        case 3:
        {
            std::list<Packet> v;
            for (auto& m : batch)
                v.push_back(buildPacket(m));
            return d->enc.encode(v.begin(), v.end(), ctx);
        }
        default:
        {
            std::vector<Packet> v;
            v.reserve(batch.size());
            for (auto& m : batch)
                v.push_back(buildPacket(m));
            return d->enc.encode(v.begin(), v.end(), ctx);
        }
    }
}

// ------------------------------------------------------------------ decoder
struct Dec::Impl
{
    Decoder dec;
};
Dec::Dec()
    : d(new Impl)
{
}
Dec::~Dec()
{
    delete d;
}
std::vector<PacketRef> Dec::decode(const uint8_t* data, size_t size)
{
    preCall();
    auto v = d->dec.decode(data, size);
    std::vector<PacketRef> out;
    out.reserve(v.size());
    for (auto& p : v)
        out.push_back(std::static_pointer_cast<void>(p));
    return out;
}
bool Dec::hasPendingHook()
{
#ifdef ASAM_CMP_LIB_VERIF
    return true;
#else
    return false;
#endif
}
std::vector<Pending> Dec::pending() const
{
    std::vector<Pending> out;
#ifdef ASAM_CMP_LIB_VERIF
    for (auto& e : d->dec.verifPending())
        out.push_back({e.deviceId, e.streamId, e.bytes});
    std::sort(out.begin(), out.end());
#endif
    return out;
}
std::vector<PacketRef> Dec::tecmpDecode(const uint8_t* data, size_t size)
{
    preCall();
    auto v = TECMP::Decoder::Decode(data, size);
    std::vector<PacketRef> out;
    for (auto& p : v)
        out.push_back(std::static_pointer_cast<void>(p));
    return out;
}

// ------------------------------------------------------------------ status
struct Stat::Impl
{
    Status st;
};
Stat::Stat()
    : d(new Impl)
{
}
Stat::~Stat()
{
    delete d;
}
void Stat::update(const PacketRef& p)
{
    preCall();
    d->st.update(*static_cast<const Packet*>(p.get()));
}
void Stat::clear()
{
    d->st.clear();
}
void Stat::removeDev(uint16_t dev)
{
    d->st.removeDeviceById(dev);
}
bool Stat::removeIf(uint16_t dev, uint32_t ifid)
{
    auto idx = d->st.getIndexByDeviceId(dev);
    if (idx >= d->st.getDeviceStatusCount())
        return false;
    d->st.getDeviceStatus(idx).removeInterfaceById(ifid);
    return true;
}
size_t Stat::devCount() const
{
    return d->st.getDeviceStatusCount();
}
size_t Stat::idxDev(uint16_t dev) const
{
    return d->st.getIndexByDeviceId(dev);
}
Obs Stat::devPacket(size_t i, bool viaConst) const
{
    if (viaConst)
    {
        const Status& cs = d->st;
        return observePacket(cs.getDeviceStatus(i).getPacket(), true);
    }
    return observePacket(d->st.getDeviceStatus(i).getPacket(), true);
}
size_t Stat::ifCount(size_t i) const
{
    return d->st.getDeviceStatus(i).getInterfaceStatusCount();
}
size_t Stat::idxIf(size_t i, uint32_t ifid) const
{
    return d->st.getDeviceStatus(i).getIndexByInterfaceId(ifid);
}
uint32_t Stat::ifId(size_t i, size_t j) const
{
    return d->st.getDeviceStatus(i).getInterfaceStatus(j).getInterfaceId();
}
Obs Stat::ifPacket(size_t i, size_t j, bool viaConst) const
{
    if (viaConst)
    {
        const Status& cs = d->st;
        return observePacket(cs.getDeviceStatus(i).getInterfaceStatus(j).getPacket(), true);
    }
    return observePacket(d->st.getDeviceStatus(i).getInterfaceStatus(j).getPacket(), true);
}

// ------------------------------------------------------------------ probes (C03)
template <typename T>
static Probe probeT(uint32_t typeCode, const uint8_t* buf, size_t n)
{
    Probe pr;
    pr.accepted = T::isValidPayload(buf, n);
    if (!pr.accepted)
        return pr;
    // construct from an exact-size heap copy which is released before the accessors run
    uint8_t* copy = new uint8_t[n ? n : 1];
    if (n)
        memcpy(copy, buf, n);
    T* obj = new T(copy, n);
    delete[] copy;
    Typed t;
    observeTyped(*obj, typeCode, t, pr.viewErr);
    delete obj;
    return pr;
}

Probe probePayload(int cls, const uint8_t* buf, size_t n)
{
    switch (cls)
    {
        case wire::K_CAN:
            return probeT<CanPayload>(PayloadType::can, buf, n);
        case wire::K_CANFD:
            return probeT<CanFdPayload>(PayloadType::canFd, buf, n);
        case wire::K_LIN:
            return probeT<LinPayload>(PayloadType::lin, buf, n);
        case wire::K_ANALOG:
            return probeT<AnalogPayload>(PayloadType::analog, buf, n);
        case wire::K_ETH:
            return probeT<EthernetPayload>(PayloadType::ethernet, buf, n);
        case wire::K_CMSTAT:
            return probeT<CaptureModulePayload>(PayloadType::cmStatMsg, buf, n);
        case wire::K_IFSTAT:
            return probeT<InterfacePayload>(PayloadType::ifStatMsg, buf, n);
        default:
            return Probe();
    }
}

Probe probePacket(uint8_t mtype, const uint8_t* buf, size_t n)
{
    Probe pr;
    pr.accepted = Packet::isValidPacket(buf, n);
    if (!pr.accepted)
        return pr;
    Packet* p = new Packet(static_cast<CmpHeader::MessageType>(mtype), buf, n);
    Obs o = observePacket(*p, true);
    pr.viewErr = o.viewErr;
    delete p;
    return pr;
}

// ------------------------------------------------------------------ builders (C13)
struct Builder::Impl
{
    int cls;
    std::unique_ptr<Payload> obj;
};

Builder::Builder(int cls)
    : d(new Impl)
{
    d->cls = cls;
    switch (cls)
    {
        case wire::K_CAN:
            d->obj = std::make_unique<CanPayload>();
            break;
        case wire::K_CANFD:
            d->obj = std::make_unique<CanFdPayload>();
            break;
        case wire::K_LIN:
            d->obj = std::make_unique<LinPayload>();
            break;
        case wire::K_ANALOG:
            d->obj = std::make_unique<AnalogPayload>();
            break;
        case wire::K_ETH:
            d->obj = std::make_unique<EthernetPayload>();
            break;
        case wire::K_CMSTAT:
            d->obj = std::make_unique<CaptureModulePayload>();
            break;
        default:
            d->cls = wire::K_IFSTAT;
            d->obj = std::make_unique<InterfacePayload>();
            break;
    }
}
Builder::Builder(int cls, const uint8_t* w, size_t n)
    : d(new Impl)
{
    preCall();
    d->cls = cls;
    switch (cls)
    {
        case wire::K_CAN:
            d->obj = std::make_unique<CanPayload>(w, n);
            break;
        case wire::K_CANFD:
            d->obj = std::make_unique<CanFdPayload>(w, n);
            break;
        case wire::K_LIN:
            d->obj = std::make_unique<LinPayload>(w, n);
            break;
        case wire::K_ANALOG:
            d->obj = std::make_unique<AnalogPayload>(w, n);
            break;
        case wire::K_ETH:
            d->obj = std::make_unique<EthernetPayload>(w, n);
            break;
        case wire::K_CMSTAT:
            d->obj = std::make_unique<CaptureModulePayload>(w, n);
            break;
        default:
            d->cls = wire::K_IFSTAT;
            d->obj = std::make_unique<InterfacePayload>(w, n);
            break;
    }
}
Builder::~Builder()
{
    delete d;
}

void Builder::setHeaderFields(const BuildFields& f)
{
    preCall();
    switch (d->cls)
    {
        case wire::K_CAN:
        {
            auto& c = static_cast<CanPayload&>(*d->obj);
            c.setFlags(f.flags);
            c.setId(f.c & 0x1FFFFFFF);
            c.setRsvd(f.x & 1);
            c.setIde(f.y & 1);
            c.setRtr(f.z & 1);
            c.setCrc(static_cast<uint16_t>(f.d & 0x7FFF));
            break;
        }
        case wire::K_CANFD:
        {
            auto& c = static_cast<CanFdPayload&>(*d->obj);
            c.setFlags(f.flags);
            c.setId(f.c & 0x1FFFFFFF);
            c.setRsvd(f.x & 1);
            c.setIde(f.y & 1);
            c.setRrs(f.z & 1);
            c.setCrc(f.d & 0x001FFFFF);
            c.setSbc(static_cast<uint8_t>(f.e & 7));
            break;
        }
        case wire::K_LIN:
        {
            auto& c = static_cast<LinPayload&>(*d->obj);
            c.setFlags(f.flags);
            c.setLinId(f.x & 0x3F);
            c.setParityBits(f.y & 3);
            c.setChecksum(f.z);
            break;
        }
        case wire::K_ETH:
        {
            auto& c = static_cast<EthernetPayload&>(*d->obj);
            c.setFlags(f.flags);
            break;
        }
        case wire::K_ANALOG:
        {
            auto& c = static_cast<AnalogPayload&>(*d->obj);
            c.setFlags(f.flags);
            c.setSampleDt((f.x & 1) ? AnalogPayload::SampleDt::aInt32 : AnalogPayload::SampleDt::aInt16);
            c.setUnit(static_cast<AnalogPayload::Unit>(f.y % 0x55));
            c.setSampleInterval(bitsFloat(f.c));
            c.setSampleOffset(bitsFloat(f.d));
            c.setSampleScalar(bitsFloat(f.e));
            break;
        }
        case wire::K_CMSTAT:
        {
            auto& c = static_cast<CaptureModulePayload&>(*d->obj);
            c.setUptime(f.a);
            c.setGmIdentity(f.b);
            c.setGmClockQuality(f.c);
            c.setCurrentUtcOffset(static_cast<uint16_t>(f.d));
            c.setTimeSource(f.x);
            c.setDomainNumber(f.y);
            c.setGptpFlags(f.z);
            break;
        }
        default:
        {
            auto& c = static_cast<InterfacePayload&>(*d->obj);
            c.setInterfaceId(f.c);
            c.setMsgTotalRx(f.d);
            c.setMsgTotalTx(f.e);
            c.setMsgDroppedRx(f.f);
            c.setMsgDroppedTx(f.g);
            c.setErrorsTotalRx(static_cast<uint32_t>(f.a));
            c.setErrorsTotalTx(static_cast<uint32_t>(f.b));
            c.setInterfaceType(f.x);
            c.setInterfaceStatus(static_cast<InterfacePayload::InterfaceStatus>(f.y % 3));
            c.setFeatureSupportBitmask(f.h);
            break;
        }
    }
}

void Builder::setData(const BuildData& bd)
{
    preCall();
    switch (d->cls)
    {
        case wire::K_CAN:
        case wire::K_CANFD:
            static_cast<CanPayloadBase&>(*d->obj).setData(bd.data.data(), static_cast<uint8_t>(bd.data.size()));
            break;
        case wire::K_LIN:
            static_cast<LinPayload&>(*d->obj).setData(bd.data.data(), static_cast<uint8_t>(bd.data.size()));
            break;
        case wire::K_ETH:
            static_cast<EthernetPayload&>(*d->obj).setData(bd.data.data(), static_cast<uint16_t>(bd.data.size()));
            break;
        case wire::K_ANALOG:
            static_cast<AnalogPayload&>(*d->obj).setData(bd.data.data(), bd.data.size());
            break;
        case wire::K_CMSTAT:
            static_cast<CaptureModulePayload&>(*d->obj).setData(bd.str[0], bd.str[1], bd.str[2], bd.str[3], bd.vendor);
            break;
        default:
            static_cast<InterfacePayload&>(*d->obj).setData(bd.data.data(),
                                                            static_cast<uint16_t>(bd.data.size()),
                                                            bd.vendor.data(),
                                                            static_cast<uint16_t>(bd.vendor.size()));
            break;
    }
}

Bytes Builder::raw() const
{
    const uint8_t* r = d->obj->getRawPayload();
    return Bytes(r, r + d->obj->getLength());
}

Typed Builder::typed(std::string& viewErr) const
{
    Typed t;
    observeTyped(*d->obj, d->obj->getType().getType(), t, viewErr);
    return t;
}

bool Builder::selfValid() const
{
    const uint8_t* r = d->obj->getRawPayload();
    const size_t n = d->obj->getLength();
    switch (d->cls)
    {
        case wire::K_CAN:
            return CanPayload::isValidPayload(r, n);
        case wire::K_CANFD:
            return CanFdPayload::isValidPayload(r, n);
        case wire::K_LIN:
            return LinPayload::isValidPayload(r, n);
        case wire::K_ETH:
            return EthernetPayload::isValidPayload(r, n);
        case wire::K_ANALOG:
            return AnalogPayload::isValidPayload(r, n);
        case wire::K_CMSTAT:
            return CaptureModulePayload::isValidPayload(r, n);
        default:
            return InterfacePayload::isValidPayload(r, n);
    }
}

uint8_t Builder::mtype() const
{
    return static_cast<uint8_t>(d->obj->getMessageType());
}
uint8_t Builder::ptype() const
{
    return d->obj->getRawPayloadType();
}

MsgSpec Builder::spec() const
{
    specBuf = raw();
    MsgSpec m;
    m.mtype = mtype();
    m.ptype = ptype();
    m.payload = specBuf.data();
    m.len = specBuf.size();
    m.build = 0;
    return m;
}

}  // namespace lib
