// adapter.cpp -- the only translation unit that includes library headers.
#include "adapter.h"

#include <cstring>
#include <list>
#include <locale>
#include <algorithm>

#include <asam_cmp/analog_payload.h>
#include <asam_cmp/can_fd_payload.h>
#include <asam_cmp/can_payload.h>
#include <asam_cmp/capture_module_payload.h>
#include <asam_cmp/decoder.h>
#include <asam_cmp/encoder.h>
#include <asam_cmp/ethernet_payload.h>
#include <asam_cmp/interface_payload.h>
#include <asam_cmp/lin_payload.h>
#include <asam_cmp/packet.h>
#include <asam_cmp/status.h>
#include <asam_cmp/tecmp_decoder.h>

#include "wire.h"
#include "content.h"

namespace sim
{
void allocFailArm(long k);
bool allocFailDisarm(uint64_t* seen);
uint64_t edgeCount();  // edgecount.cpp: basic-block edges of library code executed so far (asan variant; 0 elsewhere)
}

using namespace ASAM::CMP;

namespace lib
{

static void (*g_preCall)() = nullptr;
void setPreCallHook(void (*hook)())
{
    g_preCall = hook;
}
static inline void preCall()
{
    if (g_preCall)
        g_preCall();
}

namespace
{

inline uint64_t fnv(const void* data, size_t n, uint64_t h)
{
    const uint8_t* p = static_cast<const uint8_t*>(data);
    for (size_t i = 0; i < n; ++i)
    {
        h ^= p[i];
        h *= 0x100000001b3ULL;
    }
    return h;
}
template <typename T>
inline uint64_t fnvv(T v, uint64_t h)
{
    return fnv(&v, sizeof(v), h);
}

uint32_t floatBits(float f)
{
    uint32_t u;
    memcpy(&u, &f, 4);
    return u;
}
float bitsFloat(uint32_t u)
{
    float f;
    memcpy(&f, &u, 4);
    return f;
}

View mkView(const void* ptr, uint64_t len, const uint8_t* raw, size_t n, const char* name, std::string& err)
{
    View v;
    v.len = len;
    if (ptr == nullptr)
    {
        v.off = -1;
        if (len != 0 && err.empty())
            err = std::string(name) + ".null-with-length";
        return v;
    }
    const uintptr_t a = reinterpret_cast<uintptr_t>(ptr);
    const uintptr_t r = reinterpret_cast<uintptr_t>(raw);
    v.off = static_cast<int64_t>(a) - static_cast<int64_t>(r);
    if (a < r || a > r + n || len > static_cast<uint64_t>(r + n - a))
    {
        if (err.empty())
            err = name;
    }
    return v;
}

template <typename CanT>
void observeCanBase(const CanT& c, Typed& t, const uint8_t* raw, size_t n, const char* cls, std::string& err)
{
    t.flags = c.getFlags();
    t.id = c.getId();
    t.rsvd = c.getRsvd();
    t.ide = c.getIde();
    t.crcSupport = c.getCrcSupport();
    t.errPos = c.getErrorPosition();
    t.dlc = c.getDlc();
    t.dataLen = c.getDataLength();
    (void) c.getFlag(CanPayloadBase::Flags::brs);
    t.data = mkView(c.getData(), t.dataLen, raw, n, (std::string(cls) + ".getData").c_str(), err);
}

void observeTyped(const Payload& pl, uint32_t typeCode, Typed& t, std::string& err)
{
    const uint8_t* raw = pl.getRawPayload();
    const size_t n = pl.getLength();
    switch (typeCode)
    {
        case PayloadType::can:
        {
            auto& c = static_cast<const CanPayload&>(pl);
            t.cls = wire::K_CAN;
            observeCanBase(c, t, raw, n, "can", err);
            t.rtr = c.getRtr();
            t.crc = c.getCrc();
            break;
        }
        case PayloadType::canFd:
        {
            auto& c = static_cast<const CanFdPayload&>(pl);
            t.cls = wire::K_CANFD;
            observeCanBase(c, t, raw, n, "canfd", err);
            t.rtr = c.getRrs();
            t.crc = c.getCrc();
            t.sbc = c.getSbc();
            t.sbcParity = c.getSbcParity();
            t.sbcSupport = c.getSbcSupport();
            break;
        }
        case PayloadType::lin:
        {
            auto& c = static_cast<const LinPayload&>(pl);
            t.cls = wire::K_LIN;
            t.flags = c.getFlags();
            (void) c.getFlag(LinPayload::Flags::wup);
            t.linId = c.getLinId();
            t.parity = c.getParityBits();
            t.checksum = c.getChecksum();
            t.dataLen = c.getDataLength();
            t.data = mkView(c.getData(), t.dataLen, raw, n, "lin.getData", err);
            break;
        }
        case PayloadType::ethernet:
        {
            auto& c = static_cast<const EthernetPayload&>(pl);
            t.cls = wire::K_ETH;
            t.flags = c.getFlags();
            (void) c.getFlag(EthernetPayload::Flags::fcsSupport);
            t.dataLen = c.getDataLength();
            t.data = mkView(c.getData(), t.dataLen, raw, n, "eth.getData", err);
            break;
        }
        case PayloadType::analog:
        {
            auto& c = static_cast<const AnalogPayload&>(pl);
            t.cls = wire::K_ANALOG;
            t.flags = c.getFlags();
            t.sampleDt = static_cast<uint16_t>(c.getSampleDt());
            t.unit = static_cast<uint8_t>(c.getUnit());
            t.interval = floatBits(c.getSampleInterval());
            t.offset = floatBits(c.getSampleOffset());
            t.scalar = floatBits(c.getSampleScalar());
            t.samples = static_cast<uint32_t>(c.getSamplesCount());
            const size_t sampleSize = c.getSampleDt() == AnalogPayload::SampleDt::aInt16 ? 2 : 4;
            t.dataLen = static_cast<uint32_t>(t.samples * sampleSize);
            t.data = mkView(c.getData(), static_cast<uint64_t>(c.getSamplesCount()) * sampleSize, raw, n, "analog.getData", err);
            break;
        }
        case PayloadType::cmStatMsg:
        {
            auto& c = static_cast<const CaptureModulePayload&>(pl);
            t.cls = wire::K_CMSTAT;
            t.uptime = c.getUptime();
            t.gmIdentity = c.getGmIdentity();
            t.gmClockQuality = c.getGmClockQuality();
            t.utcOffset = c.getCurrentUtcOffset();
            t.timeSource = c.getTimeSource();
            t.domain = c.getDomainNumber();
            t.gptpFlags = c.getGptpFlags();
            std::string_view sv[4] = {c.getDeviceDescription(), c.getSerialNumber(), c.getHardwareVersion(), c.getSoftwareVersion()};
            static const char* names[4] = {
                "cm.getDeviceDescription", "cm.getSerialNumber", "cm.getHardwareVersion", "cm.getSoftwareVersion"};
            for (int i = 0; i < 4; ++i)
            {
                t.str[i] = mkView(sv[i].data(), sv[i].size(), raw, n, names[i], err);
                if (err.empty())
                    t.strVal[i].assign(sv[i].data(), sv[i].size());
            }
            t.vendorLen = c.getVendorDataLength();
            t.vendor = mkView(c.getVendorData(), t.vendorLen, raw, n, "cm.getVendorData", err);
            auto vsv = c.getVendorDataStringView();
            (void) mkView(vsv.data(), vsv.size(), raw, n, "cm.getVendorDataStringView", err);
            break;
        }
        case PayloadType::ifStatMsg:
        {
            auto& c = static_cast<const InterfacePayload&>(pl);
            t.cls = wire::K_IFSTAT;
            t.ifId = c.getInterfaceId();
            t.msgTotalRx = c.getMsgTotalRx();
            t.msgTotalTx = c.getMsgTotalTx();
            t.msgDroppedRx = c.getMsgDroppedRx();
            t.msgDroppedTx = c.getMsgDroppedTx();
            t.errTotalRx = c.getErrorsTotalRx();
            t.errTotalTx = c.getErrorsTotalTx();
            t.ifType = c.getInterfaceType();
            t.ifStatus = static_cast<uint8_t>(c.getInterfaceStatus());
            t.featureMask = c.getFeatureSupportBitmask();
            t.streamCount = c.getStreamIdsCount();
            t.streams = mkView(c.getStreamIds(), t.streamCount, raw, n, "if.getStreamIds", err);
            t.vendorLen = c.getVendorDataLength();
            t.vendor = mkView(c.getVendorData(), t.vendorLen, raw, n, "if.getVendorData", err);
            break;
        }
        default:
            break;
    }
}

__attribute__((noinline)) bool payloadIsNull(const Packet& p)
{
    const Payload* volatile vp = &p.getPayload();
    return vp == nullptr;
}

Obs observePacket(const Packet& p, bool typedViews)
{
    Obs o;
    o.version = p.getVersion();
    o.dev = p.getDeviceId();
    o.stream = p.getStreamId();
    o.seq = p.getSequenceCounter();
    o.ts = p.getTimestamp();
    o.ifid = p.getInterfaceId();
    o.vendor = p.getVendorId();
    o.flags = p.getCommonFlags();
    {
        using CF = MessageHeader::CommonFlags;
        static const CF masks[] = {CF::recalc, CF::insync, CF::seg, CF::diOnIf, CF::overflow, CF::errorInPayload};
        for (int i = 0; i < 6; ++i)
            if (p.getCommonFlag(masks[i]))
                o.flagQuery |= static_cast<uint8_t>(1u << i);
    }
    o.segType = static_cast<uint8_t>(p.getSegmentType());
    o.plen = p.getPayloadLength();
    o.valid = p.isValid();
    if (o.plen == 0 && !o.valid && payloadIsNull(p))
    {
        o.hasPayload = false;
        return o;
    }
    o.hasPayload = true;
    const Payload& pl = p.getPayload();
    o.mtype = static_cast<uint8_t>(p.getMessageType());
    o.ptype = p.getPayloadType();
    o.typeCode = pl.getType().getType();
    const uint8_t* raw = pl.getRawPayload();
    const size_t n = pl.getLength();
    if (n)
        o.payload.assign(raw, raw + n);
    (void) pl.isValid();
    (void) pl.getMessageType();
    (void) pl.getRawPayloadType();
    {
        // the raw header images, serialised into FRESH heap memory that nobody cleared: every byte of the image must
        // come from the packet (C20; under valgrind fresh means undefined, in the fill differential it is pattern-filled)
        uint8_t* h1 = new uint8_t[sizeof(CmpHeader)];
        uint8_t* h2 = new uint8_t[sizeof(MessageHeader)];
        p.getRawCmpHeader(h1);
        p.getRawMessageHeader(h2);
        o.rawCmpHeader.assign(h1, h1 + sizeof(CmpHeader));
        o.rawMsgHeader.assign(h2, h2 + sizeof(MessageHeader));
        delete[] h1;
        delete[] h2;
    }
    if (typedViews && o.valid)
        observeTyped(pl, o.typeCode, o.typed, o.viewErr);
    return o;
}

}  // namespace

Obs observe(const PacketRef& ref, bool typedViews)
{
    preCall();
    return observePacket(*static_cast<const Packet*>(ref.get()), typedViews);
}

bool isNull(const PacketRef& p)
{
    return p.get() == nullptr;
}

static uint64_t digestObs(const Obs& o)
{
    uint64_t h = 0xcbf29ce484222325ULL;
    h = fnvv(o.hasPayload, h);
    h = fnvv(o.valid, h);
    h = fnvv(o.version, h);
    h = fnvv(o.dev, h);
    h = fnvv(o.stream, h);
    h = fnvv(o.seq, h);
    h = fnvv(o.mtype, h);
    h = fnvv(o.ptype, h);
    h = fnvv(o.typeCode, h);
    h = fnvv(o.ts, h);
    h = fnvv(o.ifid, h);
    h = fnvv(o.vendor, h);
    h = fnvv(o.flags, h);
    h = fnvv(o.segType, h);
    h = fnvv(o.plen, h);
    h = fnv(o.payload.data(), o.payload.size(), h);
    h = fnv(o.rawCmpHeader.data(), o.rawCmpHeader.size(), h);
    h = fnv(o.rawMsgHeader.data(), o.rawMsgHeader.size(), h);
    const Typed& t = o.typed;
    h = fnvv(t.cls, h);
    h = fnvv(t.flags, h);
    h = fnvv(t.id, h);
    h = fnvv(t.crc, h);
    h = fnvv(t.dlc, h);
    h = fnvv(t.dataLen, h);
    h = fnvv(t.data.off, h);
    h = fnvv(t.linId, h);
    h = fnvv(t.checksum, h);
    h = fnvv(t.samples, h);
    for (int i = 0; i < 4; ++i)
    {
        h = fnvv(t.str[i].off, h);
        h = fnvv(t.str[i].len, h);
    }
    h = fnvv(t.vendor.off, h);
    h = fnvv(t.vendorLen, h);
    h = fnvv(t.ifId, h);
    h = fnvv(t.msgTotalRx, h);
    h = fnvv(t.errTotalRx, h);
    h = fnvv(t.streamCount, h);
    h = fnvv(t.streams.off, h);
    return h;
}

uint64_t digest(const PacketRef& p)
{
    return digestObs(observe(p, true));
}

// ------------------------------------------------------------------ encoder

// ------------------------------------------------------------------ object lifecycle events
template <typename T>
struct Holder
{
    T obj;
    std::unique_ptr<T> shadow;  // lifecycle 9: a copy kept alive that is given the same calls
    Holder() = default;
    explicit Holder(const T& o)
        : obj(o)
    {
    }
    explicit Holder(T&& o)
        : obj(std::move(o))
    {
    }
};

// Replace the object inside *slot by one that went through a copy / move / assignment / swap. T is an aggregate
// Impl holding the library object by value in member "obj". warm(T&) gives a scratch object some state of its own.
//  1 copy-construct, old destroyed          2 move-construct, old destroyed
//  3 copy-assign over a used object         4 move-assign over a used object
//  5 swap with a used object                6 self-assignment
//  7 copy, use and destroy the copy, keep the original (a copy must share nothing)
//  8 round trip through a temporary: tmp = obj; obj = used; obj = tmp
//  9 fork: a copy is kept alive as a shadow that receives every later call too (both must behave alike, neither may
//    disturb the other); the next event of kind 1-5 ends it
// (If a class of the library under test is not copyable / movable / assignable any more, the events that need the missing
// operation are skipped: the checks must keep building against whatever the working tree holds.)
template <typename ImplT, typename Warm>
static void lifecycleEvent(ImplT*& d, int how, Warm warm)
{
    using T = std::remove_reference_t<decltype(d->obj)>;
    constexpr bool CC = std::is_copy_constructible_v<T>, MC = std::is_move_constructible_v<T>, CA = std::is_copy_assignable_v<T>,
                   MA = std::is_move_assignable_v<T>, SW = std::is_swappable_v<T>;
    ImplT* n = nullptr;
    switch (how)
    {
        case 1:
            if constexpr (CC)
                n = new ImplT(d->obj);
            break;
        case 2:
            if constexpr (MC)
                n = new ImplT(std::move(d->obj));
            break;
        case 3:
            if constexpr (CA)
            {
                n = new ImplT;
                warm(n->obj);
                n->obj = d->obj;
            }
            break;
        case 4:
            if constexpr (MA)
            {
                n = new ImplT;
                warm(n->obj);
                n->obj = std::move(d->obj);
            }
            break;
        case 5:
            if constexpr (SW)
            {
                n = new ImplT;
                warm(n->obj);
                using std::swap;
                swap(n->obj, d->obj);
            }
            break;
        case 6:
            if constexpr (CA)
            {
                auto& a = d->obj;
                auto* volatile pb = &d->obj;
                a = *pb;
            }
            break;
        case 7:
            if constexpr (CC)
            {
                ImplT* c = new ImplT(d->obj);
                warm(c->obj);
                delete c;
            }
            break;
        case 8:
            if constexpr (CA)
            {
                ImplT* tmp = new ImplT;
                tmp->obj = d->obj;
                ImplT* used = new ImplT;
                warm(used->obj);
                d->obj = used->obj;
                d->obj = tmp->obj;
                delete used;
                delete tmp;
            }
            break;
        case 9:
            // fork: the copy lives on next to the original and is given the same calls from now on
            if constexpr (CC)
                d->shadow = std::make_unique<T>(d->obj);
            break;
        default:
            break;
    }
    if (n)
    {
        delete d;
        d = n;
    }
}

template <typename W, typename ImplT>
static std::unique_ptr<W> cloneWrapper(const ImplT* d, ImplT* W::*slot)
{
    using T = std::remove_cv_t<std::remove_reference_t<decltype(d->obj)>>;
    auto c = std::make_unique<W>();
    if constexpr (std::is_copy_constructible_v<T>)
    {
        delete (c.get()->*slot);
        c.get()->*slot = new ImplT(d->obj);
    }
    return c;
}

static Packet warmPacket(uint8_t mtype, uint8_t ptype, size_t len)
{
    Bytes b(len, 0x5A);
    Packet pk;
    pk.setPayload(Payload(PayloadType(static_cast<CmpHeader::MessageType>(mtype), ptype), b.data(), b.size()));
    pk.setTimestamp(0x1122334455667788ULL);
    pk.setInterfaceId(0xCAFE);
    pk.setVendorId(0xBEEF);
    return pk;
}

struct Enc::Impl : Holder<Encoder>
{
    using Holder<Encoder>::Holder;
    // long-lived packet objects that are assigned over and encoded again (a Packet is a value: what it held before,
    // and that it was encoded before, must not show)
    std::vector<std::shared_ptr<Packet>> pool;
    std::vector<Packet> vec;
    Packet slot;
    uint64_t calls{0};
    uint64_t shadowDiffs{0};
};

Enc::Enc()
    : d(new Impl)
{
}
Enc::~Enc()
{
    delete d;
}
void Enc::setDev(uint16_t v)
{
    d->obj.setDeviceId(v);
    if (d->shadow)
        d->shadow->setDeviceId(v);
}
void Enc::setStream(uint8_t v)
{
    d->obj.setStreamId(v);
    if (d->shadow)
        d->shadow->setStreamId(v);
}
void Enc::restart()
{
    d->obj.restart();
    if (d->shadow)
        d->shadow->restart();
}
uint16_t Enc::dev() const
{
    return d->obj.getDeviceId();
}
uint8_t Enc::stream() const
{
    return d->obj.getStreamId();
}
uint16_t Enc::counter() const
{
    return d->obj.getSequenceCounter();
}
void Enc::lifecycle(int how)
{
    preCall();
    lifecycleEvent(d, how,
                   [](Encoder& e)
                   {
                       // a used encoder: other ids, a few frames behind it, the last packet segmented
                       e.setDeviceId(0xEE01);
                       e.setStreamId(0xE1);
                       DataContext c;
                       c.minBytesPerMessage = 0;
                       c.maxBytesPerMessage = 64;
                       Packet a = warmPacket(1, 0x20, 100), b = warmPacket(2, 0x21, 7);
                       (void) e.encode(a, c);
                       (void) e.encode(b, c);
                   });
}


// ------------------------------------------------------------------ packet lifecycle
// The packet handed on went through a copy / move / assignment / swap; whatever it was assigned over, and whatever
// happens to its source afterwards, must not show (a Packet is a value).
static void dirtyPacket(Packet& pk)
{
    pk.setPayload(warmPacket(3, 0x7E, 11).getPayload());
    pk.setTimestamp(~pk.getTimestamp());
    pk.setInterfaceId(~pk.getInterfaceId());
    pk.setVendorId(static_cast<uint16_t>(~pk.getVendorId()));
    pk.setCommonFlags(static_cast<uint8_t>(~pk.getCommonFlags()));
    pk.setVersion(static_cast<uint8_t>(~pk.getVersion()));
}

static Packet lifePacket(Packet pk, unsigned how)
{
    switch (how)
    {
        case 1:
        {
            Packet c(pk);
            dirtyPacket(pk);
            return c;
        }
        case 2:
        {
            Packet c = warmPacket(2, 0x21, 33);
            c = pk;
            dirtyPacket(pk);
            return c;
        }
        case 3:
        {
            Packet c(std::move(pk));
            return c;
        }
        case 4:
        {
            Packet c = warmPacket(1, 0x20, 5);
            c = std::move(pk);
            return c;
        }
        case 5:
        {
            Packet c = warmPacket(1, 0x01, 40);
            swap(c, pk);
            return c;
        }
        case 6:
        {
            Packet& a = pk;
            Packet* volatile b = &pk;
            a = *b;
            return pk;
        }
        case 7:
        case 8:
        case 9:
        case 10:
        case 11:
        {
            // assigned over a near twin: equal in everything but one aspect. Only for non-empty payloads: for empty ones
            // Packet::operator== ignores the payload type and operator= skips "equal" sources, which is the business of
            // the value-semantics property (C14, see DESIGN.md section 14), not of the properties checked through here.
            if (pk.getPayloadLength() == 0)
                return pk;
            Packet c(pk);
            const Payload& pl = pk.getPayload();
            Bytes b(pl.getRawPayload(), pl.getRawPayload() + pl.getLength());
            if (how == 7 && !b.empty())
            {
                b.back() ^= 1;
                c.setPayload(Payload(pl.getType(), b.data(), b.size()));
            }
            else if (how == 8)
                c.setPayload(Payload(PayloadType(pl.getMessageType(), static_cast<uint8_t>(pl.getRawPayloadType() ^ 0x40)), b.data(), b.size()));
            else if (how == 9)
                c.setPayload(Payload(PayloadType(static_cast<CmpHeader::MessageType>((static_cast<uint8_t>(pl.getMessageType()) % 3) + 1), pl.getRawPayloadType()), b.data(), b.size()));
            else if (how == 10)
                c.setCommonFlags(static_cast<uint8_t>(c.getCommonFlags() ^ 0x02));
            else
                c.setVendorId(static_cast<uint16_t>(c.getVendorId() ^ 0x100));
            c = pk;
            dirtyPacket(pk);
            return c;
        }
        case 15:
        {
            // a moved-from packet used again after setPayload only: its header fields are whatever a moved-from packet
            // holds - unspecified, but they are a function of the program, not of stale memory (only generated where
            // no oracle expects particular header values: C20)
            Packet c(std::move(pk));
            pk.setPayload(c.getPayload());
            return pk;
        }
        case 14:
        {
            // read - (modify) - write back: the packet's own payload object is the argument of setPayload
            Payload& own = pk.getPayload();
            own.setRawPayloadType(own.getRawPayloadType());
            pk.setPayload(own);
            return pk;
        }
        default:
            return pk;
    }
}

static Packet buildPacket(const MsgSpec& m);
static thread_local bool g_movedFromReuse = false;
// ids of the encoder the packets under construction are meant for (set by Enc::encode): a third of the packets carry exactly
// these in their own device-id / stream-id fields ("own" packets), the others arbitrary ones ("forwarded" packets)
static thread_local int g_encDev = -1, g_encStream = -1;
static unsigned lifeOf(const MsgSpec& m)
{
    // about half of the packets take the plain path
    return static_cast<unsigned>((m.junk >> 12) % 24);
}

static Packet buildPacketPlain(const MsgSpec& m)
{
    const auto mt = static_cast<CmpHeader::MessageType>(m.mtype);
    Packet pk;
    const wire::Kind kind = wire::kindOf(m.mtype, m.ptype);
    int build = m.build;
    if (build == 2 && kind == wire::K_GENERIC)
        build = 0;
    if (build == 1)
    {
        Bytes raw(wire::MSG_HDR + m.len);
        wire::MsgHdr h;
        h.ts = m.ts;
        h.id32 = m.id32;
        h.flags = m.flags;
        h.ptype = m.ptype;
        h.plen = static_cast<uint16_t>(m.len);
        wire::writeMsgHdr(raw.data(), h);
        if (m.len)
            memcpy(raw.data() + wire::MSG_HDR, m.payload, m.len);
        pk = Packet(mt, raw.data(), raw.size());
    }
    else
    {
        if (build == 2)
        {
            switch (kind)
            {
                case wire::K_CAN:
                    pk.setPayload(CanPayload(m.payload, m.len));
                    break;
                case wire::K_CANFD:
                    pk.setPayload(CanFdPayload(m.payload, m.len));
                    break;
                case wire::K_LIN:
                    pk.setPayload(LinPayload(m.payload, m.len));
                    break;
                case wire::K_ANALOG:
                    pk.setPayload(AnalogPayload(m.payload, m.len));
                    break;
                case wire::K_ETH:
                    pk.setPayload(EthernetPayload(m.payload, m.len));
                    break;
                case wire::K_CMSTAT:
                    pk.setPayload(CaptureModulePayload(m.payload, m.len));
                    break;
                case wire::K_IFSTAT:
                    pk.setPayload(InterfacePayload(m.payload, m.len));
                    break;
                default:
                    break;
            }
        }
        else
        {
            pk.setPayload(Payload(PayloadType(mt, m.ptype), m.payload, m.len));
        }
        pk.setTimestamp(m.ts);
        if (m.junk & 1)
            pk.setCommonFlags(m.flags);
        else
        {
            // the same value through the per-flag setters, starting from the opposite of every bit
            using CF = MessageHeader::CommonFlags;
            static const CF one[] = {CF::recalc, CF::insync, CF::diOnIf, CF::overflow, CF::errorInPayload};
            pk.setCommonFlags(static_cast<uint8_t>(~m.flags));
            for (CF f : one)
                pk.setCommonFlag(f, (m.flags & static_cast<uint8_t>(f)) != 0);
            for (uint8_t bit : {uint8_t(0x04), uint8_t(0x08), uint8_t(0x80)})
                pk.setCommonFlag(static_cast<CF>(bit), (m.flags & bit) != 0);
        }
    }
    // ids: the one that applies gets the logical value, the other one junk the encoder must not emit
    const uint32_t junkId = static_cast<uint32_t>(m.junk >> 32) | 1u;
    switch (wire::idKindOf(m.mtype))
    {
        case wire::ID_INTERFACE:
            pk.setInterfaceId(m.id32);
            pk.setVendorId(static_cast<uint16_t>(junkId));
            break;
        case wire::ID_VENDOR:
            pk.setVendorId(static_cast<uint16_t>(m.id32));
            pk.setInterfaceId(junkId);
            break;
        default:
            pk.setVendorId(static_cast<uint16_t>(junkId));
            pk.setInterfaceId(junkId);
            break;
    }
    pk.setVersion(m.version);
    // fields the encoder must override / ignore
    pk.setDeviceId(static_cast<uint16_t>(m.junk));
    pk.setStreamId(static_cast<uint8_t>(m.junk >> 16));
    pk.setSequenceCounter(static_cast<uint16_t>(m.junk >> 24));
    if (g_encDev >= 0 && (m.junk >> 41) % 3 == 0)
    {
        pk.setDeviceId(static_cast<uint16_t>(g_encDev));
        pk.setStreamId(static_cast<uint8_t>(g_encStream));
    }
    return pk;
}

PacketRef makePacket(const MsgSpec& m, uint16_t dev, uint8_t stream, uint16_t seq)
{
    preCall();
    auto p = std::make_shared<Packet>(buildPacket(m));
    p->setDeviceId(dev);
    p->setStreamId(stream);
    p->setSequenceCounter(seq);
    return std::static_pointer_cast<void>(p);
}

// the packet's payload is completed through the mutable reference Packet::getPayload() hands out, i.e. it changes
// AFTER setPayload (type corrected, or data grown with the typed class's setData)
static bool buildThroughReference(const MsgSpec& m, unsigned how, Packet& outPk)
{
    const auto mt = static_cast<CmpHeader::MessageType>(m.mtype);
    const wire::Kind kind = wire::kindOf(m.mtype, m.ptype);
    Packet pk = buildPacketPlain(m);
    if (how == 12)
    {
        // generic payload born with another type, corrected afterwards
        pk.setPayload(Payload(PayloadType(static_cast<CmpHeader::MessageType>((m.mtype % 3) + 1), static_cast<uint8_t>(m.ptype ^ 0x55)), m.payload, m.len));
        if (m.junk & 2)
            pk.getPayload().setType(PayloadType(mt, m.ptype));
        else
        {
            pk.getPayload().setMessageType(mt);
            pk.getPayload().setRawPayloadType(m.ptype);
        }
    }
    else
    {
        // typed payload born with half of its data, grown with setData
        size_t fixed = 0;
        switch (kind)
        {
            case wire::K_CAN:
            case wire::K_CANFD:
                fixed = wire::CAN_FIXED;
                break;
            case wire::K_LIN:
                fixed = wire::LIN_FIXED;
                break;
            case wire::K_ETH:
                fixed = wire::ETH_FIXED;
                break;
            case wire::K_ANALOG:
                fixed = wire::ANALOG_FIXED;
                break;
            default:
                return false;
        }
        if (m.len < fixed + 2)
            return false;
        const size_t dl = m.len - fixed, half = dl / 2;
        if ((kind == wire::K_CAN || kind == wire::K_CANFD || kind == wire::K_LIN) && dl > 255)
            return false;
        Bytes b(m.payload, m.payload + fixed + half);
        if (kind == wire::K_CAN || kind == wire::K_CANFD)
            b[15] = static_cast<uint8_t>(half);
        else if (kind == wire::K_LIN)
            b[7] = static_cast<uint8_t>(half);
        else if (kind == wire::K_ETH)
            wire::wr16(b.data() + 4, static_cast<uint16_t>(half));
        switch (kind)
        {
            case wire::K_CAN:
                pk.setPayload(CanPayload(b.data(), b.size()));
                if (!pk.getPayload().isValid())
                    return false;
                static_cast<CanPayload&>(pk.getPayload()).setData(m.payload + fixed, static_cast<uint8_t>(dl));
                break;
            case wire::K_CANFD:
                pk.setPayload(CanFdPayload(b.data(), b.size()));
                if (!pk.getPayload().isValid())
                    return false;
                static_cast<CanFdPayload&>(pk.getPayload()).setData(m.payload + fixed, static_cast<uint8_t>(dl));
                break;
            case wire::K_LIN:
                pk.setPayload(LinPayload(b.data(), b.size()));
                if (!pk.getPayload().isValid())
                    return false;
                static_cast<LinPayload&>(pk.getPayload()).setData(m.payload + fixed, static_cast<uint8_t>(dl));
                break;
            case wire::K_ETH:
                pk.setPayload(EthernetPayload(b.data(), b.size()));
                if (!pk.getPayload().isValid())
                    return false;
                static_cast<EthernetPayload&>(pk.getPayload()).setData(m.payload + fixed, static_cast<uint16_t>(dl));
                break;
            default:
                pk.setPayload(AnalogPayload(b.data(), b.size()));
                if (!pk.getPayload().isValid())
                    return false;
                static_cast<AnalogPayload&>(pk.getPayload()).setData(m.payload + fixed, dl);
                break;
        }
    }
    // only a packet whose payload now IS the requested one is handed on (what the setters store is C13's business)
    const Payload& pl = static_cast<const Packet&>(pk).getPayload();
    if (pl.getLength() != m.len || (m.len && memcmp(pl.getRawPayload(), m.payload, m.len) != 0) || pl.getMessageType() != mt ||
        pl.getRawPayloadType() != m.ptype)
        return false;
    outPk = std::move(pk);
    return true;
}

static Packet buildPacket(const MsgSpec& m)
{
    const unsigned how = lifeOf(m);
    if (how == 12 || how == 13)
    {
        Packet pk;
        if (buildThroughReference(m, how, pk))
            return pk;
        return buildPacketPlain(m);
    }
    if (how == 15 && !g_movedFromReuse)
        return buildPacketPlain(m);
    return (how >= 1 && how <= 11) || how == 14 || how == 15 ? lifePacket(buildPacketPlain(m), how) : buildPacketPlain(m);
}

// one encode call on the encoder and, if there is one, on its forked copy
template <typename ImplT, typename F>
static std::vector<Bytes> encodeBoth(ImplT* d, F f)
{
    std::vector<Bytes> sv;
    const bool shadowFirst = d->shadow && (d->calls & 1);
    if (shadowFirst)
        sv = f(*d->shadow);
    std::vector<Bytes> v = f(d->obj);
    if (d->shadow && !shadowFirst)
        sv = f(*d->shadow);
    if (d->shadow && sv != v)
        ++d->shadowDiffs;
    return v;
}

std::vector<Bytes> Enc::encode(const std::vector<MsgSpec>& batch, size_t minBytes, size_t maxBytes, int mode)
{
    DataContext ctx;
    preCall();
    ctx.minBytesPerMessage = minBytes;
    ctx.maxBytesPerMessage = maxBytes;
    if (mode == 2 && batch.size() != 1)
        mode = 0;
    ++d->calls;
    g_encDev = d->obj.getDeviceId();
    g_encStream = d->obj.getStreamId();
    // every other call goes through long-lived packet objects that were encoded before
    const bool reuse = !batch.empty() && batch.size() <= 64 && (sim::mix64(d->calls * 77 + batch[0].junk) & 1);
    switch (mode)
    {
        case 1:
        {
            std::vector<std::shared_ptr<Packet>> v;
            v.reserve(batch.size());
            for (size_t i = 0; i < batch.size(); ++i)
            {
                if (reuse && i < d->pool.size() && d->pool[i].use_count() == 1)
                {
                    if (batch[i].junk & 4)
                        *d->pool[i] = buildPacket(batch[i]);
                    else
                    {
                        Packet tmp = buildPacket(batch[i]);
                        *d->pool[i] = tmp;
                    }
                    v.push_back(d->pool[i]);
                }
                else
                    v.push_back(std::make_shared<Packet>(buildPacket(batch[i])));
            }
            if (reuse)
                d->pool = v;
            return encodeBoth(d, [&](Encoder& e) { return e.encode(v.begin(), v.end(), ctx); });
        }
        case 2:
        {
            if (reuse)
            {
                if (batch[0].junk & 4)
                    d->slot = buildPacket(batch[0]);
                else
                {
                    Packet tmp = buildPacket(batch[0]);
                    if (batch[0].junk & 8)
                        d->slot = tmp;
                    else
                        swap(d->slot, tmp);
                }
                return encodeBoth(d, [&](Encoder& e) { return e.encode(d->slot, ctx); });
            }
            Packet p = buildPacket(batch[0]);
            return encodeBoth(d, [&](Encoder& e) { return e.encode(p, ctx); });
        }
        case 3:
        {
            std::list<Packet> v;
            for (auto& m : batch)
                v.push_back(buildPacket(m));
            return encodeBoth(d, [&](Encoder& e) { return e.encode(v.begin(), v.end(), ctx); });
        }
        default:
        {
            if (reuse)
            {
                // assigned element-wise over what the vector held in the previous call
                std::vector<Packet>& v = d->vec;
                if (v.size() > batch.size())
                    v.resize(batch.size());
                for (size_t i = 0; i < batch.size(); ++i)
                {
                    if (i < v.size())
                        v[i] = buildPacket(batch[i]);
                    else
                        v.push_back(buildPacket(batch[i]));
                }
                return encodeBoth(d, [&](Encoder& e) { return e.encode(v.begin(), v.end(), ctx); });
            }
            std::vector<Packet> v;
            v.reserve(batch.size());
            for (auto& m : batch)
                v.push_back(buildPacket(m));
            return encodeBoth(d, [&](Encoder& e) { return e.encode(v.begin(), v.end(), ctx); });
        }
    }
}

// An encode call that is aborted by an exception out of the caller's own iterator (a generator-style range whose
// source fails): the encoder is used again afterwards.
namespace
{
struct SimAbort
{
};
struct ThrowingIt
{
    using iterator_category = std::forward_iterator_tag;
    using value_type = Packet;
    using difference_type = std::ptrdiff_t;
    using pointer = const Packet*;
    using reference = const Packet&;
    const std::vector<Packet>* v{nullptr};
    size_t i{0};
    size_t throwAt{0};
    int where{0};  // 0 on dereference, 1 on increment
    reference operator*() const
    {
        if (where == 0 && i == throwAt)
            throw SimAbort{};
        return (*v)[i];
    }
    pointer operator->() const
    {
        return &**this;
    }
    ThrowingIt& operator++()
    {
        if (where == 1 && i == throwAt)
            throw SimAbort{};
        ++i;
        return *this;
    }
    ThrowingIt operator++(int)
    {
        ThrowingIt t = *this;
        ++*this;
        return t;
    }
    bool operator==(const ThrowingIt& o) const
    {
        return i == o.i;
    }
    bool operator!=(const ThrowingIt& o) const
    {
        return i != o.i;
    }
};
}  // namespace

bool Enc::encodeAborted(const std::vector<MsgSpec>& batch, size_t minBytes, size_t maxBytes, size_t throwAt, int where)
{
    DataContext ctx;
    preCall();
    ctx.minBytesPerMessage = minBytes;
    ctx.maxBytesPerMessage = maxBytes;
    std::vector<Packet> v;
    v.reserve(batch.size());
    for (auto& m : batch)
        v.push_back(buildPacketPlain(m));
    if (v.empty())
        return false;
    bool thrown = false;
    if (where == 2)
    {
        // the throwAt-th allocation inside the call fails (a forked copy has other capacities, so it would not fail at
        // the same place: the fork ends here)
        d->shadow.reset();
        sim::allocFailArm(static_cast<long>(throwAt));
        try
        {
            (void) d->obj.encode(v.begin(), v.end(), ctx);
        }
        catch (const std::bad_alloc&)
        {
            thrown = true;
        }
        sim::allocFailDisarm(nullptr);
        return thrown;
    }
    throwAt %= v.size();
    ThrowingIt b{&v, 0, throwAt, where}, e{&v, v.size(), throwAt, where};
    for (Encoder* enc : {&d->obj, d->shadow.get()})
    {
        if (!enc)
            continue;
        try
        {
            (void) enc->encode(b, e, ctx);
        }
        catch (const SimAbort&)
        {
            thrown = true;
        }
    }
    return thrown;
}

std::unique_ptr<Enc> Enc::clone() const
{
    return cloneWrapper<Enc, Impl>(d, &Enc::d);
}
uint64_t Enc::shadowDiverged() const
{
    return d->shadowDiffs;
}

std::vector<Bytes> Enc::encodeRefs(const std::vector<PacketRef>& batch, size_t minBytes, size_t maxBytes, int mode)
{
    DataContext ctx;
    preCall();
    ctx.minBytesPerMessage = minBytes;
    ctx.maxBytesPerMessage = maxBytes;
    if (mode == 2 && batch.size() != 1)
        mode = 0;
    switch (mode)
    {
        case 1:
        {
            // the very objects the decoder returned
            std::vector<std::shared_ptr<Packet>> v;
            for (auto& r : batch)
                v.push_back(std::static_pointer_cast<Packet>(r));
            return d->obj.encode(v.begin(), v.end(), ctx);
        }
        case 2:
            return d->obj.encode(*static_cast<const Packet*>(batch[0].get()), ctx);
        default:
        {
            std::vector<Packet> v;
            v.reserve(batch.size());
            for (auto& r : batch)
                v.push_back(*static_cast<const Packet*>(r.get()));
            return d->obj.encode(v.begin(), v.end(), ctx);
        }
    }
}

// process environment the library must not depend on: the global C++ locale (digit grouping, decimal comma)
namespace
{
struct GroupingPunct : std::numpunct<char>
{
    char do_thousands_sep() const override
    {
        return ',';
    }
    std::string do_grouping() const override
    {
        return "\3";
    }
    char do_decimal_point() const override
    {
        return ',';
    }
};
thread_local bool g_hostileLocale = false;
struct ScopedLocale
{
    std::locale old;
    bool on;
    ScopedLocale()
        : on(g_hostileLocale)
    {
        if (on)
            old = std::locale::global(std::locale(std::locale::classic(), new GroupingPunct));
    }
    ~ScopedLocale()
    {
        if (on)
            std::locale::global(old);
    }
};
}  // namespace
void setMovedFromReuse(bool on)
{
    g_movedFromReuse = on;
}
void setHostileLocale(bool on)
{
    g_hostileLocale = on;
}

// ------------------------------------------------------------------ decoder
struct Dec::Impl : Holder<Decoder>
{
    using Holder<Decoder>::Holder;
};
Dec::Dec()
    : d(new Impl)
{
}
Dec::~Dec()
{
    delete d;
}
std::vector<PacketRef> Dec::decode(const uint8_t* data, size_t size, long allocFailAt)
{
    preCall();
    ScopedLocale loc;
    std::vector<std::shared_ptr<Packet>> sv;
    const bool shadowFirst = d->shadow && (calls & 1);
    if (shadowFirst)
        sv = d->shadow->decode(data, size);
    const uint64_t e0 = sim::edgeCount();
    std::vector<std::shared_ptr<Packet>> v;
    lastThrew = false;
    if (allocFailAt >= 0)
    {
        // fault: the allocFailAt-th allocation inside this call fails. The call may throw std::bad_alloc - nothing else.
        d->shadow.reset();  // a forked copy would not see the same failure
        sim::allocFailArm(allocFailAt);
        try
        {
            v = d->obj.decode(data, size);
        }
        catch (const std::bad_alloc&)
        {
            lastThrew = true;
        }
        lastFired = sim::allocFailDisarm(&lastAllocs);
    }
    else
        v = d->obj.decode(data, size);
    lastEdges = sim::edgeCount() - e0;
    if (d->shadow && !shadowFirst)
        sv = d->shadow->decode(data, size);
    if (d->shadow)
    {
        bool same = sv.size() == v.size();
        for (size_t i = 0; same && i < v.size(); ++i)
            same = (!v[i] && !sv[i]) || (v[i] && sv[i] && digest(std::static_pointer_cast<void>(v[i])) == digest(std::static_pointer_cast<void>(sv[i])));
        if (!same)
            ++shadowDiffs;
    }
    std::vector<PacketRef> out;
    out.reserve(v.size());
    ++calls;
    for (size_t i = 0; i < v.size(); ++i)
    {
        auto& p = v[i];
        const unsigned how = lifeSeed && p ? static_cast<unsigned>(sim::mix64(lifeSeed + calls * 131 + i) % 24) : 0;
        if (((how >= 1 && how <= 11) || how == 14) && !payloadIsNull(*p))
            out.push_back(std::static_pointer_cast<void>(std::make_shared<Packet>(lifePacket(*p, how))));
        else
            out.push_back(std::static_pointer_cast<void>(p));
    }
    return out;
}
void Dec::setPacketLife(uint64_t seed)
{
    lifeSeed = seed;
}
std::unique_ptr<Dec> Dec::clone() const
{
    return cloneWrapper<Dec, Impl>(d, &Dec::d);
}
uint64_t Dec::lastCallEdges() const
{
    return lastEdges;
}
uint64_t Dec::shadowDiverged() const
{
    return shadowDiffs;
}
void Dec::lifecycle(int how)
{
    preCall();
    lifecycleEvent(d, how,
                   [](Decoder& x)
                   {
                       // a used decoder: two reassemblies in flight on endpoints nobody else uses
                       for (uint16_t dev : {uint16_t(0xEE01), uint16_t(0xEE02)})
                       {
                           Bytes f(wire::CMP_HDR + wire::MSG_HDR + 40, 0x33);
                           wire::CmpHdr ch;
                           ch.version = 1;
                           ch.dev = dev;
                           ch.mtype = 1;
                           ch.stream = 0xE1;
                           ch.ctr = 7;
                           wire::writeCmpHdr(f.data(), ch);
                           wire::MsgHdr mh;
                           mh.ts = 5;
                           mh.id32 = 9;
                           mh.flags = 0x04;  // first segment
                           mh.ptype = 0x20;
                           mh.plen = 40;
                           wire::writeMsgHdr(f.data() + wire::CMP_HDR, mh);
                           (void) x.decode(f.data(), f.size());
                       }
                   });
}
bool Dec::hasPendingHook()
{
#ifdef ASAM_CMP_LIB_VERIF
    return true;
#else
    return false;
#endif
}
std::vector<Pending> Dec::pending() const
{
    std::vector<Pending> out;
#ifdef ASAM_CMP_LIB_VERIF
    for (auto& e : d->obj.verifPending())
        out.push_back({e.deviceId, e.streamId, e.bytes});
    std::sort(out.begin(), out.end());
#endif
    return out;
}
std::vector<PacketRef> Dec::tecmpDecode(const uint8_t* data, size_t size)
{
    preCall();
    ScopedLocale loc;
    auto v = TECMP::Decoder::Decode(data, size);
    std::vector<PacketRef> out;
    for (auto& p : v)
        out.push_back(std::static_pointer_cast<void>(p));
    return out;
}

// ------------------------------------------------------------------ status
struct Stat::Impl : Holder<Status>
{
    using Holder<Status>::Holder;
};
Stat::Stat()
    : d(new Impl)
{
}
Stat::~Stat()
{
    delete d;
}
void Stat::update(const PacketRef& p)
{
    preCall();
    d->obj.update(*static_cast<const Packet*>(p.get()));
    if (d->shadow)
        d->shadow->update(*static_cast<const Packet*>(p.get()));
}
void Stat::lifecycle(int how)
{
    preCall();
    lifecycleEvent(d, how,
                   [](Status& x)
                   {
                       // a used tracker: one device nobody else uses, with one interface
                       Bytes cm = sim::makePayload(wire::K_CMSTAT, 60, 0xEE01), ifs = sim::makePayload(wire::K_IFSTAT, 50, 0xEE02);
                       Packet a, b;
                       a.setPayload(CaptureModulePayload(cm.data(), cm.size()));
                       a.setDeviceId(0xEE01);
                       b.setPayload(InterfacePayload(ifs.data(), ifs.size()));
                       b.setDeviceId(0xEE01);
                       x.update(a);
                       x.update(b);
                   });
}
void Stat::clear()
{
    d->obj.clear();
    if (d->shadow)
        d->shadow->clear();
}
void Stat::removeDev(uint16_t dev)
{
    d->obj.removeDeviceById(dev);
    if (d->shadow)
        d->shadow->removeDeviceById(dev);
}
bool Stat::removeIf(uint16_t dev, uint32_t ifid)
{
    auto idx = d->obj.getIndexByDeviceId(dev);
    if (idx >= d->obj.getDeviceStatusCount())
        return false;
    d->obj.getDeviceStatus(idx).removeInterfaceById(ifid);
    if (d->shadow)
    {
        auto sidx = d->shadow->getIndexByDeviceId(dev);
        if (sidx < d->shadow->getDeviceStatusCount())
            d->shadow->getDeviceStatus(sidx).removeInterfaceById(ifid);
    }
    return true;
}
std::unique_ptr<Stat> Stat::clone() const
{
    return cloneWrapper<Stat, Impl>(d, &Stat::d);
}
uint64_t Stat::digestAll() const
{
    // everything the tracker holds, through untyped getters only (stored payload objects may be shorter than their class's header)
    uint64_t h = 0x57A7;
    const Status& cs = d->obj;
    const size_t nd = cs.getDeviceStatusCount();
    h = sim::hashU64(nd, h);
    for (size_t i = 0; i < nd; ++i)
    {
        const DeviceStatus& ds = cs.getDeviceStatus(i);
        h = sim::hashU64(digestObs(observePacket(ds.getPacket(), false)), h);
        const size_t ni = ds.getInterfaceStatusCount();
        h = sim::hashU64(ni, h);
        for (size_t j = 0; j < ni; ++j)
        {
            const InterfaceStatus& is = ds.getInterfaceStatus(j);
            h = sim::hashU64(is.getInterfaceId(), h);
            h = sim::hashU64(digestObs(observePacket(is.getPacket(), false)), h);
        }
    }
    return h;
}
size_t Stat::devCount() const
{
    return d->obj.getDeviceStatusCount();
}
size_t Stat::idxDev(uint16_t dev) const
{
    return d->obj.getIndexByDeviceId(dev);
}
Obs Stat::devPacket(size_t i, bool viaConst) const
{
    if (viaConst)
    {
        const Status& cs = d->obj;
        return observePacket(cs.getDeviceStatus(i).getPacket(), true);
    }
    return observePacket(d->obj.getDeviceStatus(i).getPacket(), true);
}
size_t Stat::ifCount(size_t i) const
{
    return d->obj.getDeviceStatus(i).getInterfaceStatusCount();
}
size_t Stat::idxIf(size_t i, uint32_t ifid) const
{
    return d->obj.getDeviceStatus(i).getIndexByInterfaceId(ifid);
}
uint32_t Stat::ifId(size_t i, size_t j) const
{
    return d->obj.getDeviceStatus(i).getInterfaceStatus(j).getInterfaceId();
}
Obs Stat::ifPacket(size_t i, size_t j, bool viaConst) const
{
    if (viaConst)
    {
        const Status& cs = d->obj;
        return observePacket(cs.getDeviceStatus(i).getInterfaceStatus(j).getPacket(), true);
    }
    return observePacket(d->obj.getDeviceStatus(i).getInterfaceStatus(j).getPacket(), true);
}

// ------------------------------------------------------------------ probes (C03)
template <typename T>
static Probe probeT(uint32_t typeCode, const uint8_t* buf, size_t n)
{
    Probe pr;
    pr.accepted = T::isValidPayload(buf, n);
    if (!pr.accepted)
        return pr;
    // construct from an exact-size heap copy which is released before the accessors run
    uint8_t* copy = new uint8_t[n ? n : 1];
    if (n)
        memcpy(copy, buf, n);
    T* obj = new T(copy, n);
    delete[] copy;
    Typed t;
    observeTyped(*obj, typeCode, t, pr.viewErr);
    delete obj;
    return pr;
}

Probe probePayload(int cls, const uint8_t* buf, size_t n)
{
    switch (cls)
    {
        case wire::K_CAN:
            return probeT<CanPayload>(PayloadType::can, buf, n);
        case wire::K_CANFD:
            return probeT<CanFdPayload>(PayloadType::canFd, buf, n);
        case wire::K_LIN:
            return probeT<LinPayload>(PayloadType::lin, buf, n);
        case wire::K_ANALOG:
            return probeT<AnalogPayload>(PayloadType::analog, buf, n);
        case wire::K_ETH:
            return probeT<EthernetPayload>(PayloadType::ethernet, buf, n);
        case wire::K_CMSTAT:
            return probeT<CaptureModulePayload>(PayloadType::cmStatMsg, buf, n);
        case wire::K_IFSTAT:
            return probeT<InterfacePayload>(PayloadType::ifStatMsg, buf, n);
        default:
            return Probe();
    }
}

Probe probePacket(uint8_t mtype, const uint8_t* buf, size_t n)
{
    Probe pr;
    pr.accepted = Packet::isValidPacket(buf, n);
    if (!pr.accepted)
        return pr;
    Packet* p = new Packet(static_cast<CmpHeader::MessageType>(mtype), buf, n);
    Obs o = observePacket(*p, true);
    pr.viewErr = o.viewErr;
    // ... and the same packet after it was copied / moved / assigned / had its own payload set back: still only in-bounds views
    const unsigned how = static_cast<unsigned>(sim::mix64(sim::fnv1a(buf, n)) % 24);
    if (pr.viewErr.empty() && ((how >= 1 && how <= 11) || how == 14) && !payloadIsNull(*p))
    {
        Packet* q = new Packet(lifePacket(*p, how));
        Obs o2 = observePacket(*q, true);
        pr.viewErr = o2.viewErr;
        delete q;
    }
    delete p;
    return pr;
}

// ------------------------------------------------------------------ builders (C13)
struct Builder::Impl
{
    int cls;
    std::unique_ptr<Payload> obj;
};

Builder::Builder(int cls)
    : d(new Impl)
{
    d->cls = cls;
    switch (cls)
    {
        case wire::K_CAN:
            d->obj = std::make_unique<CanPayload>();
            break;
        case wire::K_CANFD:
            d->obj = std::make_unique<CanFdPayload>();
            break;
        case wire::K_LIN:
            d->obj = std::make_unique<LinPayload>();
            break;
        case wire::K_ANALOG:
            d->obj = std::make_unique<AnalogPayload>();
            break;
        case wire::K_ETH:
            d->obj = std::make_unique<EthernetPayload>();
            break;
        case wire::K_CMSTAT:
            d->obj = std::make_unique<CaptureModulePayload>();
            break;
        default:
            d->cls = wire::K_IFSTAT;
            d->obj = std::make_unique<InterfacePayload>();
            break;
    }
}
Builder::Builder(int cls, const uint8_t* w, size_t n)
    : d(new Impl)
{
    preCall();
    d->cls = cls;
    switch (cls)
    {
        case wire::K_CAN:
            d->obj = std::make_unique<CanPayload>(w, n);
            break;
        case wire::K_CANFD:
            d->obj = std::make_unique<CanFdPayload>(w, n);
            break;
        case wire::K_LIN:
            d->obj = std::make_unique<LinPayload>(w, n);
            break;
        case wire::K_ANALOG:
            d->obj = std::make_unique<AnalogPayload>(w, n);
            break;
        case wire::K_ETH:
            d->obj = std::make_unique<EthernetPayload>(w, n);
            break;
        case wire::K_CMSTAT:
            d->obj = std::make_unique<CaptureModulePayload>(w, n);
            break;
        default:
            d->cls = wire::K_IFSTAT;
            d->obj = std::make_unique<InterfacePayload>(w, n);
            break;
    }
}
Builder::~Builder()
{
    delete d;
}

void Builder::setHeaderFields(const BuildFields& f)
{
    preCall();
    switch (d->cls)
    {
        case wire::K_CAN:
        {
            auto& c = static_cast<CanPayload&>(*d->obj);
            c.setFlags(f.flags);
            c.setId(f.c & 0x1FFFFFFF);
            c.setRsvd(f.x & 1);
            c.setIde(f.y & 1);
            c.setRtr(f.z & 1);
            c.setCrc(static_cast<uint16_t>(f.d & 0x7FFF));
            break;
        }
        case wire::K_CANFD:
        {
            auto& c = static_cast<CanFdPayload&>(*d->obj);
            c.setFlags(f.flags);
            c.setId(f.c & 0x1FFFFFFF);
            c.setRsvd(f.x & 1);
            c.setIde(f.y & 1);
            c.setRrs(f.z & 1);
            c.setCrc(f.d & 0x001FFFFF);
            c.setSbc(static_cast<uint8_t>(f.e & 7));
            break;
        }
        case wire::K_LIN:
        {
            auto& c = static_cast<LinPayload&>(*d->obj);
            c.setFlags(f.flags);
            c.setLinId(f.x & 0x3F);
            c.setParityBits(f.y & 3);
            c.setChecksum(f.z);
            break;
        }
        case wire::K_ETH:
        {
            auto& c = static_cast<EthernetPayload&>(*d->obj);
            c.setFlags(f.flags);
            break;
        }
        case wire::K_ANALOG:
        {
            auto& c = static_cast<AnalogPayload&>(*d->obj);
            c.setFlags(f.flags);
            c.setSampleDt((f.x & 1) ? AnalogPayload::SampleDt::aInt32 : AnalogPayload::SampleDt::aInt16);
            c.setUnit(static_cast<AnalogPayload::Unit>(f.y % 0x55));
            c.setSampleInterval(bitsFloat(f.c));
            c.setSampleOffset(bitsFloat(f.d));
            c.setSampleScalar(bitsFloat(f.e));
            break;
        }
        case wire::K_CMSTAT:
        {
            auto& c = static_cast<CaptureModulePayload&>(*d->obj);
            c.setUptime(f.a);
            c.setGmIdentity(f.b);
            c.setGmClockQuality(f.c);
            c.setCurrentUtcOffset(static_cast<uint16_t>(f.d));
            c.setTimeSource(f.x);
            c.setDomainNumber(f.y);
            c.setGptpFlags(f.z);
            break;
        }
        default:
        {
            auto& c = static_cast<InterfacePayload&>(*d->obj);
            c.setInterfaceId(f.c);
            c.setMsgTotalRx(f.d);
            c.setMsgTotalTx(f.e);
            c.setMsgDroppedRx(f.f);
            c.setMsgDroppedTx(f.g);
            c.setErrorsTotalRx(static_cast<uint32_t>(f.a));
            c.setErrorsTotalTx(static_cast<uint32_t>(f.b));
            c.setInterfaceType(f.x);
            c.setInterfaceStatus(static_cast<InterfacePayload::InterfaceStatus>(f.y % 3));
            c.setFeatureSupportBitmask(f.h);
            break;
        }
    }
}

void Builder::setData(const BuildData& bd)
{
    preCall();
    switch (d->cls)
    {
        case wire::K_CAN:
        case wire::K_CANFD:
            static_cast<CanPayloadBase&>(*d->obj).setData(bd.data.data(), static_cast<uint8_t>(bd.data.size()));
            break;
        case wire::K_LIN:
            static_cast<LinPayload&>(*d->obj).setData(bd.data.data(), static_cast<uint8_t>(bd.data.size()));
            break;
        case wire::K_ETH:
            static_cast<EthernetPayload&>(*d->obj).setData(bd.data.data(), static_cast<uint16_t>(bd.data.size()));
            break;
        case wire::K_ANALOG:
            static_cast<AnalogPayload&>(*d->obj).setData(bd.data.data(), bd.data.size());
            break;
        case wire::K_CMSTAT:
        {
            // every other call hands the strings over as views into exact-size heap blocks WITHOUT a terminator behind them
            // (a substring of a larger buffer, a field of a parsed line): a std::string always has a NUL behind its
            // characters, a std::string_view has not - and here ASan sees any read past the view
            size_t total = 0;
            for (auto& q : bd.str)
                total += q.size();
            if (total % 2)
            {
                std::unique_ptr<char[]> blk[4];
                std::string_view v[4];
                for (int i = 0; i < 4; ++i)
                {
                    blk[i].reset(new char[bd.str[i].size() ? bd.str[i].size() : 1]);
                    if (!bd.str[i].empty())
                        memcpy(blk[i].get(), bd.str[i].data(), bd.str[i].size());
                    v[i] = std::string_view(blk[i].get(), bd.str[i].size());
                }
                static_cast<CaptureModulePayload&>(*d->obj).setData(v[0], v[1], v[2], v[3], bd.vendor);
            }
            else
                static_cast<CaptureModulePayload&>(*d->obj).setData(bd.str[0], bd.str[1], bd.str[2], bd.str[3], bd.vendor);
            break;
        }
        default:
            static_cast<InterfacePayload&>(*d->obj).setData(bd.data.data(),
                                                            static_cast<uint16_t>(bd.data.size()),
                                                            bd.vendor.data(),
                                                            static_cast<uint16_t>(bd.vendor.size()));
            break;
    }
}

bool Builder::setDataAliased(int how, const BuildData& bd)
{
    if (!selfValid())
        return false;
    preCall();
    switch (d->cls)
    {
        case wire::K_CAN:
        case wire::K_CANFD:
        {
            auto& o = static_cast<CanPayloadBase&>(*d->obj);
            const uint8_t n = o.getDataLength();
            o.setData(o.getData(), how ? static_cast<uint8_t>(bd.data.size() <= n ? bd.data.size() : n) : n);
            return true;
        }
        case wire::K_LIN:
        {
            auto& o = static_cast<LinPayload&>(*d->obj);
            const uint8_t n = o.getDataLength();
            o.setData(o.getData(), how ? static_cast<uint8_t>(bd.data.size() <= n ? bd.data.size() : n) : n);
            return true;
        }
        case wire::K_ETH:
        {
            auto& o = static_cast<EthernetPayload&>(*d->obj);
            const uint16_t n = o.getDataLength();
            o.setData(o.getData(), how ? static_cast<uint16_t>(bd.data.size() <= n ? bd.data.size() : n) : n);
            return true;
        }
        case wire::K_IFSTAT:
        {
            auto& o = static_cast<InterfacePayload&>(*d->obj);
            const uint16_t n = o.getStreamIdsCount();
            const uint16_t v = o.getVendorDataLength();
            if (how == 0)
                o.setData(o.getStreamIds(), n, o.getVendorData(), v);
            else
                o.setData(o.getStreamIds(), n, bd.vendor.data(), static_cast<uint16_t>(bd.vendor.size() <= v ? bd.vendor.size() : v));
            return true;
        }
        default:
            return false;
    }
}

void Builder::assignFrom(const Builder& other)
{
    preCall();
    Payload& dst = *d->obj;
    const Payload& src = *other.d->obj;
    dst = src;
}
Bytes Builder::raw() const
{
    const uint8_t* r = d->obj->getRawPayload();
    return Bytes(r, r + d->obj->getLength());
}

Typed Builder::typed(std::string& viewErr) const
{
    Typed t;
    observeTyped(*d->obj, d->obj->getType().getType(), t, viewErr);
    return t;
}

bool Builder::selfValid() const
{
    const uint8_t* r = d->obj->getRawPayload();
    const size_t n = d->obj->getLength();
    switch (d->cls)
    {
        case wire::K_CAN:
            return CanPayload::isValidPayload(r, n);
        case wire::K_CANFD:
            return CanFdPayload::isValidPayload(r, n);
        case wire::K_LIN:
            return LinPayload::isValidPayload(r, n);
        case wire::K_ETH:
            return EthernetPayload::isValidPayload(r, n);
        case wire::K_ANALOG:
            return AnalogPayload::isValidPayload(r, n);
        case wire::K_CMSTAT:
            return CaptureModulePayload::isValidPayload(r, n);
        default:
            return InterfacePayload::isValidPayload(r, n);
    }
}

uint8_t Builder::mtype() const
{
    return static_cast<uint8_t>(d->obj->getMessageType());
}
uint8_t Builder::ptype() const
{
    return d->obj->getRawPayloadType();
}

MsgSpec Builder::spec() const
{
    specBuf = raw();
    MsgSpec m;
    m.mtype = mtype();
    m.ptype = ptype();
    m.payload = specBuf.data();
    m.len = specBuf.size();
    m.build = 0;
    return m;
}

}  // namespace lib
