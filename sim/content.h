// content.h -- stub peers' payload and frame writers. Everything is rendered with wire.h from
// (content id, length, kind): no payload bytes are stored in plans.
#pragma once
#include <unistd.h>
#include <cstdio>
#include <string>
#include <algorithm>
#include <cstdint>
#include <vector>

#include "prng.h"
#include "wire.h"

namespace sim
{

using Bytes = std::vector<uint8_t>;

inline size_t minLenOf(int kind)
{
    switch (kind)
    {
        case wire::K_CAN:
        case wire::K_CANFD:
            return wire::CAN_FIXED;
        case wire::K_LIN:
            return wire::LIN_FIXED;
        case wire::K_ETH:
            return wire::ETH_FIXED;
        case wire::K_ANALOG:
            return wire::ANALOG_FIXED;
        case wire::K_CMSTAT:
            return wire::CM_FIXED + 10;
        case wire::K_IFSTAT:
            return wire::IF_FIXED + 4;
        default:
            return 1;
    }
}

inline Bytes contentBytes(uint32_t id, uint32_t off, size_t n)
{
    Bytes b(n);
    if (n)
        fillContent(b.data(), id, off, n);
    return b;
}

// Dictionary of byte strings that mean something on the buses this protocol captures (a captured Ethernet preamble + SFD,
// broadcast / link-local multicast addresses, LLC/SNAP, HDLC flags, all-zero). One content id in eight starts its data
// region with one of them: value-dependent special cases on such patterns are otherwise out of reach of pseudo-random bytes.
// ... plus the byte sequences that occur as hexadecimal literals in the sources of the tree under test (build.sh ->
// lib/litseq.txt next to the binary) and a few text-encoding marks: a prefix the code treats specially is one of them.
inline const std::vector<Bytes>& sourceSequences()
{
    static const std::vector<Bytes> seqs = []
    {
        std::vector<Bytes> v = {{0xEF, 0xBB, 0xBF}, {0xFF, 0xFE}, {0xFE, 0xFF}, {0x20}, {0x09}, {0x0D, 0x0A}, {0x80}, {0xFF}, {0x7F}, {0x1B, 0x5B}};
        char exe[4096];
        const ssize_t n = readlink("/proc/self/exe", exe, sizeof exe - 1);
        if (n <= 0)
            return v;
        exe[n] = 0;
        std::string path(exe);
        const size_t slash = path.rfind('/');
        if (slash == std::string::npos)
            return v;
        path = path.substr(0, slash) + "/lib/litseq.txt";
        FILE* f = fopen(path.c_str(), "r");
        if (!f)
            return v;
        char line[80];
        while (fgets(line, sizeof line, f) && v.size() < 700)
        {
            Bytes b;
            for (size_t i = 0; line[i] && line[i + 1] && line[i] != '\n'; i += 2)
            {
                unsigned x = 0;
                if (sscanf(line + i, "%2x", &x) != 1)
                    break;
                b.push_back(static_cast<uint8_t>(x));
            }
            if (b.size() >= 2)
                v.push_back(std::move(b));
        }
        fclose(f);
        return v;
    }();
    return seqs;
}

// CRC-32 (IEEE 802.3, reflected) - for content that carries a checksum of itself, as captured Ethernet frames do
inline uint32_t crc32Of(const uint8_t* p, size_t n)
{
    uint32_t c = 0xFFFFFFFFu;
    for (size_t i = 0; i < n; ++i)
    {
        c ^= p[i];
        for (int k = 0; k < 8; ++k)
            c = (c >> 1) ^ (0xEDB88320u & (0u - (c & 1u)));
    }
    return ~c;
}
// one Ethernet data region in eight ends with the frame check sequence of the bytes before it (little-endian, as on the
// wire): properties of content that a generator does not hit bit by bit (checksums) have to be put there on purpose
inline void applyFcs(uint8_t* data, size_t n, uint32_t id)
{
    if (n < 18 || (mix64(id * 0x9E3779B97F4A7C15ULL + 777) & 7) != 0)
        return;
    const uint32_t c = crc32Of(data, n - 4);
    for (int i = 0; i < 4; ++i)
        data[n - 4 + static_cast<size_t>(i)] = static_cast<uint8_t>(c >> (8 * i));
}

inline void applyDictionary(uint8_t* data, size_t n, uint32_t id)
{
    static const uint8_t d0[] = {0x55, 0x55, 0x55, 0x55, 0x55, 0x55, 0x55, 0xD5};
    static const uint8_t d1[] = {0xFF, 0xFF, 0xFF, 0xFF, 0xFF, 0xFF};
    static const uint8_t d2[] = {0x01, 0x80, 0xC2, 0x00, 0x00, 0x0E};
    static const uint8_t d3[] = {0, 0, 0, 0, 0, 0, 0, 0};
    static const uint8_t d4[] = {0xAA, 0xAA, 0x03, 0x00, 0x00, 0x00, 0x08, 0x00};
    static const uint8_t d5[] = {0x7E, 0x7E};
    static const uint8_t d6[] = {'A', 'S', 'A', 'M', ' ', 'C', 'M', 'P'};
    static const uint8_t d7[] = {0x01, 0x1B, 0x19, 0x00, 0x00, 0x00};
    static const struct
    {
        const uint8_t* p;
        size_t n;
    } dict[] = {{d0, sizeof d0}, {d1, sizeof d1}, {d2, sizeof d2}, {d3, sizeof d3}, {d4, sizeof d4}, {d5, sizeof d5}, {d6, sizeof d6}, {d7, sizeof d7}};
    const uint64_t r = mix64(id * 0x9E3779B97F4A7C15ULL + 4242);
    if ((r & 7) != 0 || n == 0)
        return;
    if ((r >> 3) & 1)
    {
        const auto& seqs = sourceSequences();
        const Bytes& q = seqs[(r >> 8) % seqs.size()];
        for (size_t i = 0; i < q.size() && i < n; ++i)
            data[i] = q[i];
        return;
    }
    const auto& e = dict[(r >> 8) % 8];
    for (size_t i = 0; i < e.n && i < n; ++i)
        data[i] = e.p[i];
}

// A well-formed payload of the given kind with exactly len bytes (len is raised to the kind's minimum).
// "Well-formed" by wire.h's rules: no bus-error flags, consistent inner lengths, valid sample type,
// interface status <= 2, status-payload walks ending exactly at the end.
inline Bytes makePayload(int kind, size_t len, uint32_t id)
{
    len = std::max(len, minLenOf(kind));
    if (len > 65535)
        len = 65535;
    Bytes b = contentBytes(id, 0, len);
    const uint64_t r = mix64(id * 0x9E3779B97F4A7C15ULL + 77);
    {
        // the data region of the bus payloads may start with a dictionary entry
        size_t dataOff = static_cast<size_t>(-1);
        switch (kind)
        {
            case wire::K_CAN:
            case wire::K_CANFD:
                dataOff = wire::CAN_FIXED;
                break;
            case wire::K_LIN:
                dataOff = wire::LIN_FIXED;
                break;
            case wire::K_ETH:
                dataOff = wire::ETH_FIXED;
                break;
            case wire::K_ANALOG:
                dataOff = wire::ANALOG_FIXED;
                break;
            default:
                break;
        }
        if (dataOff < len)
            applyDictionary(b.data() + dataOff, len - dataOff, id);
        if (kind == wire::K_ETH && dataOff < len)
            applyFcs(b.data() + dataOff, len - dataOff, id);
    }
    switch (kind)
    {
        case wire::K_CAN:
        case wire::K_CANFD:
        {
            wire::wr16(b.data(), static_cast<uint16_t>(r & 0x3C00));  // r0/srr/brs/esi bits only: no error flags
            b[2] = b[3] = 0;
            wire::wr16(b.data() + 12, 0);  // error position
            size_t room = std::min<size_t>(len - wire::CAN_FIXED, 255);
            size_t dl = (r >> 20) & 1 ? room : (room ? (r >> 24) % (room + 1) : 0);
            b[15] = static_cast<uint8_t>(dl);
            int dlc = wire::dlcOf(static_cast<unsigned>(dl));
            b[14] = static_cast<uint8_t>(dlc < 0 ? 0 : dlc);
            break;
        }
        case wire::K_LIN:
        {
            wire::wr16(b.data(), static_cast<uint16_t>(r & 0x0100));  // wake-up bit only
            b[2] = b[3] = 0;
            b[5] = 0;
            size_t room = std::min<size_t>(len - wire::LIN_FIXED, 255);
            size_t dl = (r >> 20) & 1 ? room : (room ? (r >> 24) % (room + 1) : 0);
            b[7] = static_cast<uint8_t>(dl);
            break;
        }
        case wire::K_ETH:
        {
            wire::wr16(b.data(), static_cast<uint16_t>(r & 0x0080));  // fcs supported only
            b[2] = b[3] = 0;
            wire::wr16(b.data() + 4, static_cast<uint16_t>(len - wire::ETH_FIXED));
            break;
        }
        case wire::K_ANALOG:
        {
            wire::wr16(b.data(), static_cast<uint16_t>(r & 0x0001));  // sample type int16 / int32
            b[2] = 0;
            b[3] = static_cast<uint8_t>((r >> 8) % 0x55);
            break;
        }
        case wire::K_CMSTAT:
        {
            b[24] = 0;
            size_t rest = len - wire::CM_FIXED - 10;  // bytes to distribute over 4 strings + vendor data
            size_t part[5];
            uint64_t rr = r;
            for (int i = 0; i < 4; ++i)
            {
                size_t take = rest ? (rr % (rest + 1)) : 0;
                if (i < 3 && (rr >> 40) & 1)
                    take = std::min<size_t>(take, 40);
                take &= ~static_cast<size_t>(1);  // strings have even stored length
                part[i] = take;
                rest -= take;
                rr = mix64(rr);
            }
            part[4] = rest;
            size_t pos = wire::CM_FIXED;
            for (int i = 0; i < 5; ++i)
            {
                wire::wr16(b.data() + pos, static_cast<uint16_t>(part[i]));
                pos += 2;
                if (i < 4)
                {
                    // printable text, NUL terminated, zero padded to even length
                    for (size_t k = 0; k < part[i]; ++k)
                        b[pos + k] = static_cast<uint8_t>('a' + (b[pos + k] % 26));
                    if (part[i] >= 1)
                        b[pos + part[i] - 1] = 0;
                    if (part[i] >= 2 && ((r >> (8 + i)) & 1))
                        b[pos + part[i] - 2] = 0;
                }
                pos += part[i];
            }
            break;
        }
        case wire::K_IFSTAT:
        {
            b[29] = static_cast<uint8_t>((r >> 8) % 3);
            b[30] = b[31] = 0;
            size_t rest = len - wire::IF_FIXED - 4;
            size_t cnt = rest ? (r >> 16) % (rest + 1) : 0;
            if ((cnt & 1) && cnt + 1 > rest)
                --cnt;
            size_t pad = cnt & 1;
            size_t vl = rest - cnt - pad;
            size_t pos = wire::IF_FIXED;
            wire::wr16(b.data() + pos, static_cast<uint16_t>(cnt));
            pos += 2 + cnt;
            if (pad)
                b[pos++] = 0;
            wire::wr16(b.data() + pos, static_cast<uint16_t>(vl));
            break;
        }
        default:
            break;
    }
    return b;
}

// A capture-module status payload that every length walk accepts but in which NO byte from the start of the last
// string to the end of the payload is zero (unterminated string, vendor length >= 0x0101, vendor data without zeros).
inline Bytes makeCmNoNul(uint32_t id)
{
    const uint64_t r = mix64(id * 0x9E3779B97F4A7C15ULL + 99);
    const size_t l3 = 2 + (r % 40), vl = 0x0101 + ((r >> 8) % 0x30) + (((r >> 16) % 3) << 8);
    Bytes b = contentBytes(id, 0, wire::CM_FIXED + 2 + 2 + 2 + (2 + l3) + 2 + vl);
    size_t pos = wire::CM_FIXED;
    for (int i = 0; i < 3; ++i)
    {
        wire::wr16(b.data() + pos, 0);
        pos += 2;
    }
    wire::wr16(b.data() + pos, static_cast<uint16_t>(l3));
    pos += 2;
    for (size_t k = 0; k < l3; ++k)
        b[pos + k] = static_cast<uint8_t>('A' + (b[pos + k] % 26));
    pos += l3;
    uint16_t v = static_cast<uint16_t>(vl);
    if ((v & 0xFF) == 0)
        v |= 1;
    wire::wr16(b.data() + pos, v);
    pos += 2;
    b.resize(pos + v);
    for (size_t k = pos; k < b.size(); ++k)
        b[k] = static_cast<uint8_t>(1 + (contentByte(id, static_cast<uint32_t>(k)) % 255));
    b[24] = 0;
    return b;
}

// offset and width of the inner length field "which" of a payload kind; false if there is none
inline bool innerLenField(int kind, const uint8_t* p, size_t n, int which, size_t& off, int& width)
{
    switch (kind)
    {
        case wire::K_CAN:
        case wire::K_CANFD:
            off = which == 0 ? 15 : 14;
            width = 1;
            return n > off;
        case wire::K_LIN:
            off = 7;
            width = 1;
            return n > off;
        case wire::K_ETH:
            off = 4;
            width = 2;
            return n >= 6;
        case wire::K_ANALOG:
            off = 0;  // sample type bits live in the flags
            width = 2;
            return n >= 2;
        case wire::K_CMSTAT:
        {
            // which = 0..4: the five length fields, located by walking as far as possible
            size_t pos = wire::CM_FIXED;
            for (int i = 0; i <= which && i < 5; ++i)
            {
                if (pos + 2 > n)
                    return false;
                if (i == which)
                {
                    off = pos;
                    width = 2;
                    return true;
                }
                pos += 2 + wire::rd16(p + pos);
            }
            return false;
        }
        case wire::K_IFSTAT:
        {
            size_t pos = wire::IF_FIXED;
            if (pos + 2 > n)
                return false;
            if (which == 0)
            {
                off = pos;
                width = 2;
                return true;
            }
            if (which == 2)
            {
                off = 29;  // interface status byte
                width = 1;
                return true;
            }
            size_t cnt = wire::rd16(p + pos);
            pos += 2 + cnt + (cnt & 1);
            if (pos + 2 > n)
                return false;
            off = pos;
            width = 2;
            return true;
        }
        default:
            return false;
    }
}

}  // namespace sim
