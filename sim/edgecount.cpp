// edgecount.cpp -- deterministic "work" measure for the promptness part of C02: in the asan variant the library is
// also compiled with -fsanitize-coverage=trace-pc-guard; every basic-block edge of library code bumps a counter.
// (The sched variant has its own callbacks in sched_rt.cpp; the plain variant has none and the counter stays 0.)
#include <cstdint>
#include <vector>

#include "world.h"

namespace sim
{
static uint64_t g_edges = 0;
uint64_t edgeCount()
{
    return g_edges;
}
}  // namespace sim

// ------------------------------------------------------------------------------------------------ comparison operands
// (asan variant: the library is also compiled with -fsanitize-coverage=trace-cmp.) While armed - around ONE decode call -
// every comparison of a variable with a constant, and every switch, is recorded as (constant, observed value, width).
// The world then looks the observed value up in the bytes it had just handed to the decoder and, where it finds it,
// derives a frame in which those bytes spell the constant instead (world.cpp, deriveFromComparisons): the next frame
// takes the branch this one did not take. Input-to-state correspondence, as in greybox fuzzers - here as one more
// deterministic fault operator of the simulated network: which frames are derived is a function of plan and code.
namespace sim
{
namespace cmpfb
{
static thread_local bool g_armed = false;
static thread_local std::vector<Operand>* g_ops = nullptr;
void arm(std::vector<Operand>* sink)
{
    g_ops = sink;
    g_armed = sink != nullptr;
}
void disarm()
{
    g_armed = false;
    g_ops = nullptr;
}
static inline void note(uint64_t constant, uint64_t observed, int width, bool variable = false)
{
    if (!g_armed || constant == observed || g_ops->size() >= (variable ? 64u : 128u))
        return;
    for (auto& o : *g_ops)
        if (o.constant == constant && o.observed == observed && o.width == width)
            return;
    g_ops->push_back(Operand{constant, observed, width, variable});
}
// two variables compared: either may be the one that came from the input - the other is then the value to put there
static inline void noteBoth(uint64_t a, uint64_t b, int width)
{
    if (!g_armed || a == b || (a < 16 && b < 16))
        return;  // (small against small: loop counters, enumerators)
    note(b, a, width, true);
    note(a, b, width, true);
}
}  // namespace cmpfb
}  // namespace sim

#if !defined(SIM_VARIANT_SCHED)
extern "C"
{
    void __sanitizer_cov_trace_const_cmp1(uint8_t c, uint8_t v) { sim::cmpfb::note(c, v, 1); }
    void __sanitizer_cov_trace_const_cmp2(uint16_t c, uint16_t v) { sim::cmpfb::note(c, v, 2); }
    void __sanitizer_cov_trace_const_cmp4(uint32_t c, uint32_t v) { sim::cmpfb::note(c, v, 4); }
    void __sanitizer_cov_trace_const_cmp8(uint64_t c, uint64_t v) { sim::cmpfb::note(c, v, 8); }
    void __sanitizer_cov_trace_cmp1(uint8_t a, uint8_t b) { sim::cmpfb::noteBoth(a, b, 1); }
    void __sanitizer_cov_trace_cmp2(uint16_t a, uint16_t b) { sim::cmpfb::noteBoth(a, b, 2); }
    void __sanitizer_cov_trace_cmp4(uint32_t a, uint32_t b) { sim::cmpfb::noteBoth(a, b, 4); }
    void __sanitizer_cov_trace_cmp8(uint64_t a, uint64_t b) { sim::cmpfb::noteBoth(a, b, 8); }
    void __sanitizer_cov_trace_div4(uint32_t) {}
    void __sanitizer_cov_trace_div8(uint64_t) {}
    void __sanitizer_cov_trace_gep(uintptr_t) {}
    void __sanitizer_cov_trace_switch(uint64_t val, uint64_t* cases)
    {
        const uint64_t n = cases[0];
        const int width = static_cast<int>(cases[1] / 8);
        for (uint64_t i = 0; i < n && i < 16; ++i)
            sim::cmpfb::note(cases[2 + i], val, width ? width : 1);
    }
}
#endif

#if !defined(SIM_VARIANT_SCHED)
extern "C"
{
    void __sanitizer_cov_trace_pc_guard_init(uint32_t* start, uint32_t* stop)
    {
        static uint32_t n = 0;
        for (uint32_t* p = start; p < stop; ++p)
            if (!*p)
                *p = ++n;
    }
    void __sanitizer_cov_trace_pc_guard(uint32_t*)
    {
        ++sim::g_edges;
    }
}
#endif
