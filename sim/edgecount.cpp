// edgecount.cpp -- deterministic "work" measure for the promptness part of C02: in the asan variant the library is
// also compiled with -fsanitize-coverage=trace-pc-guard; every basic-block edge of library code bumps a counter.
// (The sched variant has its own callbacks in sched_rt.cpp; the plain variant has none and the counter stays 0.)
#include <cstdint>

namespace sim
{
static uint64_t g_edges = 0;
uint64_t edgeCount()
{
    return g_edges;
}
}  // namespace sim

#if !defined(SIM_VARIANT_SCHED)
extern "C"
{
    void __sanitizer_cov_trace_pc_guard_init(uint32_t* start, uint32_t* stop)
    {
        static uint32_t n = 0;
        for (uint32_t* p = start; p < stop; ++p)
            if (!*p)
                *p = ++n;
    }
    void __sanitizer_cov_trace_pc_guard(uint32_t*)
    {
        ++sim::g_edges;
    }
}
#endif
