// allocfault.cpp -- fault kind "failing allocation" (asan variant only): replaced global operator new that throws
// std::bad_alloc at the k-th allocation after it was armed (per thread). malloc/free stay ASan's, so heap checking is
// unchanged (only the new/delete pairing check is lost). Elsewhere (plain: memfill.cpp owns operator new; sched, tsan)
// arming is a no-op and the fault simply never fires.
#include <cstdint>
#include <cstdlib>
#include <malloc.h>

#include <atomic>
#include <new>

namespace sim
{
#if defined(SIM_VARIANT_ASAN)
static thread_local long g_countdown = -1;
static thread_local bool g_fired = false;
static thread_local uint64_t g_seen = 0;
void allocFailArm(long k)
{
    g_countdown = k;
    g_fired = false;
    g_seen = 0;
}
bool allocFailDisarm(uint64_t* seen)
{
    g_countdown = -1;
    if (seen)
        *seen = g_seen;
    return g_fired;
}
bool allocFailSupported()
{
    return true;
}
// bytes currently allocated through operator new (C17: "traffic without open messages leaves the decoder's memory at its baseline")
static std::atomic<int64_t> g_liveBytes{0};
int64_t liveHeapBytes()
{
    return g_liveBytes.load(std::memory_order_relaxed);
}
static inline void tick()
{
    if (g_countdown >= 0)
    {
        ++g_seen;
        if (g_countdown-- == 0)
        {
            g_countdown = -1;
            g_fired = true;
            throw std::bad_alloc();
        }
    }
}
#else
void allocFailArm(long)
{
}
bool allocFailDisarm(uint64_t* seen)
{
    if (seen)
        *seen = 0;
    return false;
}
bool allocFailSupported()
{
    return false;
}
int64_t liveHeapBytes()
{
    return -1;
}
#endif
}  // namespace sim

#if defined(SIM_VARIANT_ASAN)
static inline void* account(void* p)
{
    if (p)
        sim::g_liveBytes.fetch_add(static_cast<int64_t>(malloc_usable_size(p)), std::memory_order_relaxed);
    return p;
}
static inline void simFree(void* p)
{
    if (p)
        sim::g_liveBytes.fetch_sub(static_cast<int64_t>(malloc_usable_size(p)), std::memory_order_relaxed);
    free(p);
}
static void* simAlloc(size_t n)
{
    sim::tick();
    void* p = malloc(n ? n : 1);
    if (!p)
        throw std::bad_alloc();
    return account(p);
}
static void* simAllocAligned(size_t n, size_t a)
{
    void* p = aligned_alloc(a, (n + a - 1) / a * a);
    if (!p)
        throw std::bad_alloc();
    return account(p);
}
void* operator new(size_t n)
{
    return simAlloc(n);
}
void* operator new[](size_t n)
{
    return simAlloc(n);
}
void* operator new(size_t n, const std::nothrow_t&) noexcept
{
    return account(malloc(n ? n : 1));
}
void* operator new[](size_t n, const std::nothrow_t&) noexcept
{
    return account(malloc(n ? n : 1));
}
void* operator new(size_t n, std::align_val_t a)
{
    sim::tick();
    return simAllocAligned(n, static_cast<size_t>(a));
}
void* operator new[](size_t n, std::align_val_t a)
{
    sim::tick();
    return simAllocAligned(n, static_cast<size_t>(a));
}
void* operator new(size_t n, std::align_val_t a, const std::nothrow_t&) noexcept
{
    return account(aligned_alloc(static_cast<size_t>(a), (n + static_cast<size_t>(a) - 1) / static_cast<size_t>(a) * static_cast<size_t>(a)));
}
void* operator new[](size_t n, std::align_val_t a, const std::nothrow_t&) noexcept
{
    return account(aligned_alloc(static_cast<size_t>(a), (n + static_cast<size_t>(a) - 1) / static_cast<size_t>(a) * static_cast<size_t>(a)));
}
void operator delete(void* p) noexcept
{
    simFree(p);
}
void operator delete[](void* p) noexcept
{
    simFree(p);
}
void operator delete(void* p, size_t) noexcept
{
    simFree(p);
}
void operator delete[](void* p, size_t) noexcept
{
    simFree(p);
}
void operator delete(void* p, const std::nothrow_t&) noexcept
{
    simFree(p);
}
void operator delete[](void* p, const std::nothrow_t&) noexcept
{
    simFree(p);
}
void operator delete(void* p, std::align_val_t) noexcept
{
    simFree(p);
}
void operator delete[](void* p, std::align_val_t) noexcept
{
    simFree(p);
}
void operator delete(void* p, size_t, std::align_val_t) noexcept
{
    simFree(p);
}
void operator delete[](void* p, size_t, std::align_val_t) noexcept
{
    simFree(p);
}
void operator delete(void* p, std::align_val_t, const std::nothrow_t&) noexcept
{
    simFree(p);
}
void operator delete[](void* p, std::align_val_t, const std::nothrow_t&) noexcept
{
    simFree(p);
}
#endif
