// world_build.cpp -- payload builder steps (C13) and direct validity probes (C03)
#include "world_int.h"

#include <cstring>

namespace sim
{

static lib::BuildFields fieldsFromSeed(int cls, uint64_t seed)
{
    lib::BuildFields f;
    uint64_t x = seed;
    f.a = splitmix64_next(x);
    f.b = splitmix64_next(x);
    f.c = static_cast<uint32_t>(splitmix64_next(x));
    f.d = static_cast<uint32_t>(splitmix64_next(x));
    f.e = static_cast<uint32_t>(splitmix64_next(x));
    f.f = static_cast<uint32_t>(splitmix64_next(x));
    f.g = static_cast<uint32_t>(splitmix64_next(x));
    f.h = static_cast<uint32_t>(splitmix64_next(x));
    uint64_t r = splitmix64_next(x);
    f.x = static_cast<uint8_t>(r);
    f.y = static_cast<uint8_t>(r >> 8);
    f.z = static_cast<uint8_t>(r >> 16);
    uint16_t fl = static_cast<uint16_t>(r >> 24);
    switch (cls)
    {
        case wire::K_CAN:
        case wire::K_CANFD:
            fl &= static_cast<uint16_t>(~wire::CAN_ERR_FLAGS) & 0x3FFF;
            break;
        case wire::K_LIN:
            fl &= 0x0100;
            break;
        case wire::K_ETH:
            fl &= 0x00C4;
            break;
        case wire::K_ANALOG:
            fl &= 0x0001;
            // finite floats only (no NaN payload games)
            f.c = (f.c & 0x807FFFFF) | 0x3F000000;
            f.d = (f.d & 0x807FFFFF) | 0x40000000;
            f.e = (f.e & 0x807FFFFF) | 0x3E800000;
            break;
        default:
            break;
    }
    f.flags = fl;
    f.setHeader = true;
    return f;
}

static std::string textOf(uint32_t id, size_t n)
{
    std::string s(n, 'x');
    const uint64_t r = mix64(id * 0x9E3779B97F4A7C15ULL + 911);
    const bool anyByte = (r & 3) == 0;  // one string in four uses every byte value but NUL, the others printable ASCII
    for (size_t i = 0; i < n; ++i)
    {
        const uint8_t c = contentByte(id, static_cast<uint32_t>(i));
        s[i] = anyByte ? static_cast<char>(c ? c : 0xA5) : static_cast<char>('!' + (c % 90));
    }
    if (((r >> 2) & 7) == 0 && n)
    {
        // one string in eight begins with a dictionary sequence (text-encoding marks, byte sequences from the sources); NUL-free
        const auto& seqs = sourceSequences();
        const Bytes& q = seqs[(r >> 8) % seqs.size()];
        bool nulFree = true;
        for (uint8_t b : q)
            nulFree = nulFree && b != 0;
        if (nulFree)
            for (size_t i = 0; i < q.size() && i < n; ++i)
                s[i] = static_cast<char>(q[i]);
    }
    return s;
}

// expected raw bytes of a payload: header region as given + rendering of the logical data
static Bytes renderExpected(int cls, const Bytes& header, const lib::BuildData& bd)
{
    Bytes e = header;
    switch (cls)
    {
        case wire::K_CAN:
        case wire::K_CANFD:
        {
            e[15] = static_cast<uint8_t>(bd.data.size());
            int dlc = wire::dlcOf(static_cast<unsigned>(bd.data.size()));
            if (dlc >= 0)
                e[14] = static_cast<uint8_t>(dlc);
            e.insert(e.end(), bd.data.begin(), bd.data.end());
            break;
        }
        case wire::K_LIN:
            e[7] = static_cast<uint8_t>(bd.data.size());
            e.insert(e.end(), bd.data.begin(), bd.data.end());
            break;
        case wire::K_ETH:
            wire::wr16(e.data() + 4, static_cast<uint16_t>(bd.data.size()));
            e.insert(e.end(), bd.data.begin(), bd.data.end());
            break;
        case wire::K_ANALOG:
            e.insert(e.end(), bd.data.begin(), bd.data.end());
            break;
        case wire::K_CMSTAT:
        {
            for (int i = 0; i < 4; ++i)
            {
                size_t l = bd.str[i].size() + 1;
                if (l & 1)
                    ++l;
                uint8_t lb[2];
                wire::wr16(lb, static_cast<uint16_t>(l));
                e.push_back(lb[0]);
                e.push_back(lb[1]);
                e.insert(e.end(), bd.str[i].begin(), bd.str[i].end());
                e.insert(e.end(), l - bd.str[i].size(), 0);
            }
            uint8_t lb[2];
            wire::wr16(lb, static_cast<uint16_t>(bd.vendor.size()));
            e.push_back(lb[0]);
            e.push_back(lb[1]);
            e.insert(e.end(), bd.vendor.begin(), bd.vendor.end());
            break;
        }
        default:
        {
            uint8_t lb[2];
            wire::wr16(lb, static_cast<uint16_t>(bd.data.size()));
            e.push_back(lb[0]);
            e.push_back(lb[1]);
            e.insert(e.end(), bd.data.begin(), bd.data.end());
            if (bd.data.size() & 1)
                e.push_back(0);
            wire::wr16(lb, static_cast<uint16_t>(bd.vendor.size()));
            e.push_back(lb[0]);
            e.push_back(lb[1]);
            e.insert(e.end(), bd.vendor.begin(), bd.vendor.end());
            break;
        }
    }
    return e;
}

static const char* clsName(int cls)
{
    switch (cls)
    {
        case wire::K_CAN:
            return "can";
        case wire::K_CANFD:
            return "canfd";
        case wire::K_LIN:
            return "lin";
        case wire::K_ETH:
            return "eth";
        case wire::K_ANALOG:
            return "analog";
        case wire::K_CMSTAT:
            return "cm";
        default:
            return "if";
    }
}

static int normCls(int64_t c)
{
    switch (c)
    {
        case wire::K_CAN:
        case wire::K_CANFD:
        case wire::K_LIN:
        case wire::K_ETH:
        case wire::K_ANALOG:
        case wire::K_CMSTAT:
            return static_cast<int>(c);
        default:
            return wire::K_IFSTAT;
    }
}

void World::opBuild(const Item& op)
{
    const int cls = normCls(op.get("cls", wire::K_CAN));
    const int objId = static_cast<int>(op.get("obj", 0)) * 256 + cls;
    const std::string cn = clsName(cls);
    BuilderSlot& slot = builders[objId];
    const size_t fixedSz = wire::fixedSize(static_cast<wire::Kind>(cls));
    auto zeroLengthBytes = [&](Bytes& h)
    {
        // the bytes setData derives from the data (not "header fields set earlier")
        switch (cls)
        {
            case wire::K_CAN:
            case wire::K_CANFD:
                if (h.size() > 15)
                    h[14] = h[15] = 0;
                break;
            case wire::K_LIN:
                if (h.size() > 7)
                    h[7] = 0;
                break;
            case wire::K_ETH:
                if (h.size() > 5)
                    h[4] = h[5] = 0;
                break;
            default:
                break;
        }
    };
    if (op.get("fromwire", 0))
    {
        // an object born from wire bytes: well-formed header fields, but length / DLC bytes poked to values that need not
        // match, and possibly a buffer shorter than the header
        Bytes w = makePayload(cls, static_cast<size_t>(std::max<int64_t>(0, op.get("wlen", 0))), static_cast<uint32_t>(op.get("wid", 7)));
        if (op.has("wl1") && w.size() > 15 && (cls == wire::K_CAN || cls == wire::K_CANFD))
        {
            w[14] = static_cast<uint8_t>(op.get("wl1") & 0x0F);
            w[15] = static_cast<uint8_t>(std::min<size_t>(w.size() - 16, static_cast<size_t>(op.get("wl2", 0) & 0xFF)));
        }
        // non-canonical but valid images: a non-zero pad byte / reserved byte, surplus bytes behind the last element
        if (op.has("wpo") && w.size() > fixedSz)
            w[fixedSz + static_cast<size_t>(std::max<int64_t>(0, op.get("wpo"))) % (w.size() - fixedSz)] ^= static_cast<uint8_t>(op.get("wpx", 0xAA));
        if (op.get("wextra", 0) > 0)
        {
            const size_t old = w.size();
            w.resize(old + static_cast<size_t>(std::min<int64_t>(op.get("wextra"), 64)));
            fillContent(w.data() + old, static_cast<uint32_t>(op.get("wid", 7)) ^ 0x55AA, 0, w.size() - old);
        }
        if (op.has("wcut"))
            w.resize(std::min<size_t>(w.size(), static_cast<size_t>(std::max<int64_t>(0, op.get("wcut")))));
        slot = BuilderSlot();
        uint8_t* hb = new uint8_t[w.size() ? w.size() : 1];
        if (!w.empty())
            memcpy(hb, w.data(), w.size());
        slot.b = std::make_unique<lib::Builder>(cls, hb, w.size());
        delete[] hb;
        slot.fromWire = true;
        slot.wireHeader.assign(w.begin(), w.begin() + std::min(w.size(), fixedSz));
        slot.wireHeader.resize(fixedSz, 0);  // bytes the buffer did not have are zero in a value-initialised payload
        zeroLengthBytes(slot.wireHeader);
        probe(w.size() < fixedSz ? "built-from-short-wire-bytes" : "built-from-wire-bytes");
        res.apiCalls++;
    }
    else if (!slot.b || op.get("fresh", 0))
    {
        slot = BuilderSlot();
        slot.b = std::make_unique<lib::Builder>(cls);
    }
    // header setters on an object that is shorter than its own header would write outside it: that is misuse of the API,
    // not something C13 speaks about, so such (short from-wire) objects get their header fields only after the first setData
    if (op.get("hdr", 0) && slot.b->raw().size() >= fixedSz + (cls == wire::K_CMSTAT ? 10 : (cls == wire::K_IFSTAT ? 4 : 0)))
    {
        slot.fields = fieldsFromSeed(cls, static_cast<uint64_t>(op.get("hseed", 1)));
        slot.hasFields = true;
        slot.b->setHeaderFields(slot.fields);
        res.apiCalls++;
    }
    // logical data
    lib::BuildData bd;
    const uint32_t id = static_cast<uint32_t>(op.get("id", 1));
    size_t n = static_cast<size_t>(std::max<int64_t>(0, op.get("n", 0)));
    size_t v = static_cast<size_t>(std::max<int64_t>(0, op.get("v", 0)));
    switch (cls)
    {
        case wire::K_CAN:
        case wire::K_CANFD:
        case wire::K_LIN:
            n = std::min<size_t>(n, 255);
            break;
        case wire::K_ETH:
            n = std::min<size_t>(n, 65535 - wire::ETH_FIXED);
            break;
        case wire::K_ANALOG:
            n = std::min<size_t>(n, 65535 - wire::ANALOG_FIXED);
            break;
        case wire::K_CMSTAT:
            v = std::min<size_t>(v, 4000);
            break;
        default:
            n = std::min<size_t>(n, 2000);
            v = std::min<size_t>(v, 4000);
            break;
    }
    if (cls == wire::K_CMSTAT)
    {
        static const char* keys[4] = {"s0", "s1", "s2", "s3"};
        for (int i = 0; i < 4; ++i)
            bd.str[i] = textOf(id * 4 + i, static_cast<size_t>(std::min<int64_t>(std::max<int64_t>(0, op.get(keys[i], 0)), 2000)));
        bd.vendor = contentBytes(id ^ 0x77777777u, 0, v);
        if (op.has("nul") && !is("C13"))
        {
            // (C20 runs only) bits 0-3: which strings end with a NUL of their own; bits 4-7: which carry one in the middle
            const int64_t nm = op.get("nul");
            for (int i = 0; i < 4; ++i)
            {
                if ((nm >> i) & 1)
                    bd.str[i].push_back('\0');
                if (((nm >> (4 + i)) & 1) && bd.str[i].size() > 2)
                    bd.str[i][bd.str[i].size() / 2] = '\0';
            }
            probe("capture-module-string-with-nul");
        }
    }
    else
    {
        bd.data = contentBytes(id, 0, n);
        if (cls != wire::K_IFSTAT && !bd.data.empty())
            applyDictionary(bd.data.data(), bd.data.size(), id);
        if (cls == wire::K_ETH)
            applyFcs(bd.data.data(), bd.data.size(), id);
        bd.vendor = contentBytes(id ^ 0x77777777u, 0, v);
    }
    const size_t fixed = wire::fixedSize(static_cast<wire::Kind>(cls));
    if (op.get("near", 0) && slot.hasPrevBd)
    {
        // the previous step's content again with ONE byte changed (same lengths): "equal length but different content",
        // where the difference may sit behind a zero byte, in the last byte, in the first
        bd = slot.prevBd;
        Bytes& tgt = (!bd.data.empty() && (op.get("nearpos", 0) & 1) == 0) || bd.vendor.empty() ? bd.data : bd.vendor;
        if (!tgt.empty())
        {
            const int64_t np = op.get("nearpos", 0) >> 1;
            const size_t pos = np < 0 ? tgt.size() - 1 : static_cast<size_t>(np) % tgt.size();
            uint8_t x = static_cast<uint8_t>(op.get("nearx", 1));
            tgt[pos] ^= x ? x : 1;
            probe("setdata-one-byte-from-previous");
        }
    }
    const int64_t alias = slot.fromWire && !slot.everSet ? 0 : op.get("alias", 0);  // 1: own views as they are, 2: own prefix / own ids + shorter external vendor data
    bool aliasReady = false;
    const lib::BuildData requested = bd;
    if (op.get("same", 0) || alias)
    {
        // exactly the content the object already reports through its getters (idempotence; "re-sent with the same content")
        std::string ve = "not-valid";
        lib::Typed cur;
        Bytes rawNow = slot.b->raw();
        if (slot.b->selfValid())  // (the validator is safe on any size; the accessors only on what it accepts)
        {
            ve.clear();
            cur = slot.b->typed(ve);
        }
        auto slice = [&](const lib::View& vw) -> Bytes
        {
            if (vw.off < 0 || static_cast<size_t>(vw.off) + vw.len > rawNow.size())
                return Bytes();
            return Bytes(rawNow.begin() + vw.off, rawNow.begin() + vw.off + static_cast<std::ptrdiff_t>(vw.len));
        };
        if (ve.empty())
        {
            if (cls == wire::K_CMSTAT)
            {
                for (int i = 0; i < 4; ++i)
                    bd.str[i] = cur.strVal[i];
                bd.vendor = slice(cur.vendor);
            }
            else if (cls == wire::K_IFSTAT)
            {
                bd.data = slice(cur.streams);
                bd.vendor = slice(cur.vendor);
            }
            else if (cls != wire::K_ANALOG)
                bd.data = slice(cur.data);
            probe("setdata-with-reported-content");
            if (alias && (cls == wire::K_CAN || cls == wire::K_CANFD || cls == wire::K_LIN || cls == wire::K_ETH || cls == wire::K_IFSTAT))
            {
                aliasReady = true;
                if (alias == 2)
                {
                    // what the call is going to ask for: a prefix of the own data / the own ids with other, not longer vendor data
                    if (cls == wire::K_IFSTAT)
                    {
                        Bytes nv = requested.vendor;
                        if (nv.size() > bd.vendor.size())
                            nv.resize(bd.vendor.size());
                        bd.vendor = nv;
                    }
                    else if (requested.data.size() < bd.data.size())
                        bd.data.resize(requested.data.size());
                }
            }
        }
        if (alias && !aliasReady && !op.get("same", 0))
            bd = requested;  // the object is in no state for it: an ordinary setData with the requested content
    }
    slot.prevBd = bd;
    slot.hasPrevBd = true;
    Bytes before = slot.b->raw();
    if (op.get("via", 0) && !slot.fromWire)
    {
        // the content arrives by copy assignment from a sibling object that was given it (same header fields): the raw
        // bytes still "depend only on the final logical content, not on what the object held before"
        lib::Builder donor(cls);
        if (slot.hasFields)
            donor.setHeaderFields(slot.fields);
        donor.setData(bd);
        slot.b->assignFrom(donor);
        probe("content-by-assignment");
    }
    else if (aliasReady && slot.b->setDataAliased(alias == 2 ? 1 : 0, bd))
        probe("setdata-with-own-views-as-arguments");
    else
        slot.b->setData(bd);
    slot.everSet = true;
    if (++slot.setCalls == 257)
        probe("more-than-256-setdata-calls-on-one-object");
    res.apiCalls++;
    Bytes after = slot.b->raw();
    evBytes(after.data(), after.size(), "built-payload");
    std::string viewErr;
    lib::Typed t = slot.b->typed(viewErr);

    // probes
    if (after.size() < slot.prevLen)
        probe("shorter-after-longer");
    else if (after.size() > slot.prevLen && slot.prevLen)
        probe("longer-after-shorter");
    if (cls == wire::K_IFSTAT && (n & 1))
        probe("odd-stream-id-count");
    if (cls == wire::K_CMSTAT)
        for (int i = 0; i < 4; ++i)
            if ((bd.str[i].size() & 1) == 0)
                probe("even-length-string");
    if ((cls == wire::K_CAN || cls == wire::K_CANFD) && wire::dlcOf(static_cast<unsigned>(n)) >= 9)
        probe("fd-dlc-coded-length");
    slot.prevLen = after.size();

    if (!is("C13"))
        return;
    if (!viewErr.empty())
        violate("build.getter." + cn, "accessor view leaves the payload: " + viewErr);
    // header preserved
    if (before.size() >= fixed && after.size() >= fixed)
    {
        for (size_t i = 0; i < fixed; ++i)
        {
            bool lengthByte = false;
            switch (cls)
            {
                case wire::K_CAN:
                case wire::K_CANFD:
                    lengthByte = (i == 14 || i == 15);
                    break;
                case wire::K_LIN:
                    lengthByte = (i == 7);
                    break;
                case wire::K_ETH:
                    lengthByte = (i == 4 || i == 5);
                    break;
                default:
                    break;
            }
            if (!lengthByte && before[i] != after[i])
            {
                violate("build.header-changed." + cn, "setData changed header byte " + std::to_string(i));
                break;
            }
        }
    }
    else if (after.size() < fixed)
        violate("build.render." + cn, "payload shorter than its fixed part");
    // rendering
    if (after.size() >= fixed)
    {
        Bytes hdr(after.begin(), after.begin() + fixed);
        Bytes want = renderExpected(cls, hdr, bd);
        if (want != after)
        {
            size_t i = 0;
            while (i < want.size() && i < after.size() && want[i] == after[i])
                ++i;
            violate("build.render." + cn, "raw payload (" + std::to_string(after.size()) + " bytes) differs from the layout rendering (" +
                                              std::to_string(want.size()) + " bytes) at offset " + std::to_string(i));
        }
    }
    // getters
    auto viewIs = [&](const lib::View& vw, const Bytes& want, const char* what)
    {
        if (want.empty())
        {
            if (vw.len != 0)
                violate("build.getter." + cn, std::string(what) + ": length " + std::to_string(vw.len) + " for empty data");
            return;
        }
        if (vw.len != want.size() || vw.off < 0 || static_cast<size_t>(vw.off) + want.size() > after.size() ||
            memcmp(after.data() + vw.off, want.data(), want.size()) != 0)
            violate("build.getter." + cn, std::string(what) + " does not return the data that was set (" + std::to_string(want.size()) + " bytes)");
    };
    switch (cls)
    {
        case wire::K_CAN:
        case wire::K_CANFD:
        case wire::K_LIN:
        case wire::K_ETH:
            if (t.dataLen != bd.data.size())
                violate("build.getter." + cn, "getDataLength() returns " + std::to_string(t.dataLen) + ", set " + std::to_string(bd.data.size()));
            viewIs(t.data, bd.data, "getData()");
            break;
        case wire::K_ANALOG:
        {
            const size_t ss = t.sampleDt == 0 ? 2 : 4;
            if (t.samples != bd.data.size() / ss)
                violate("build.getter." + cn, "getSamplesCount() returns " + std::to_string(t.samples) + " for " + std::to_string(bd.data.size()) + " bytes");
            Bytes whole(bd.data.begin(), bd.data.begin() + (bd.data.size() / ss) * ss);
            viewIs(t.data, whole, "getData()");
            break;
        }
        case wire::K_CMSTAT:
            for (int i = 0; i < 4; ++i)
                if (t.strVal[i] != bd.str[i])
                    violate("build.getter." + cn, "string " + std::to_string(i) + " reads back differently (" + std::to_string(t.strVal[i].size()) +
                                                      " vs " + std::to_string(bd.str[i].size()) + " characters)");
            if (t.vendorLen != bd.vendor.size())
                violate("build.getter." + cn, "getVendorDataLength() returns " + std::to_string(t.vendorLen));
            viewIs(t.vendor, bd.vendor, "getVendorData()");
            break;
        default:
            if (t.streamCount != bd.data.size())
                violate("build.getter." + cn, "getStreamIdsCount() returns " + std::to_string(t.streamCount));
            viewIs(t.streams, bd.data, "getStreamIds()");
            if (t.vendorLen != bd.vendor.size())
                violate("build.getter." + cn, "getVendorDataLength() returns " + std::to_string(t.vendorLen));
            viewIs(t.vendor, bd.vendor, "getVendorData()");
            break;
    }
    // fresh differential: a new object given the same final content
    {
        std::unique_ptr<lib::Builder> freshP;
        if (slot.fromWire && cls != wire::K_CMSTAT && cls != wire::K_IFSTAT)
        {
            // the twin is born from the same header fields (header bytes only, derived length bytes zeroed)
            uint8_t* hb = new uint8_t[slot.wireHeader.size() ? slot.wireHeader.size() : 1];
            memcpy(hb, slot.wireHeader.data(), slot.wireHeader.size());
            freshP = std::make_unique<lib::Builder>(cls, hb, slot.wireHeader.size());
            delete[] hb;
        }
        else if (slot.fromWire)
        {
            Bytes hb(slot.wireHeader);
            hb.resize(fixed + (cls == wire::K_CMSTAT ? 10 : 4), 0);
            freshP = std::make_unique<lib::Builder>(cls, hb.data(), hb.size());
        }
        else
            freshP = std::make_unique<lib::Builder>(cls);
        lib::Builder& fresh = *freshP;
        if (slot.hasFields)
            fresh.setHeaderFields(slot.fields);
        fresh.setData(bd);
        Bytes fr = fresh.raw();
        if (fr != after)
        {
            size_t i = 0;
            while (i < fr.size() && i < after.size() && fr[i] == after[i])
                ++i;
            violate("build.fresh-diff." + cn, "raw bytes depend on what the object held before: differ from a fresh object's at offset " +
                                                  std::to_string(i));
        }
    }
    // own validity check
    if (!slot.b->selfValid())
        violate("build.self-invalid." + cn, "isValidPayload rejects the payload the builder produced");
    // across the wire
    if (op.get("wire", 1) && after.size() <= 65535)
    {
        lib::Enc enc;
        enc.setDev(7);
        enc.setStream(2);
        lib::MsgSpec sp = slot.b->spec();
        sp.ts = 0x1122334455667788ULL;
        sp.id32 = 0x0A0B0C0D;
        size_t maxB = static_cast<size_t>(std::min<int64_t>(std::max<int64_t>(25, op.get("max", 1500)), 65559));
        auto frames = enc.encode({sp}, 0, maxB, static_cast<int>(op.get("mode", 2)));
        lib::Dec d;
        std::vector<lib::PacketRef> got;
        for (auto& f : frames)
        {
            uint8_t* b = new uint8_t[f.size() ? f.size() : 1];
            memcpy(b, f.data(), f.size());
            auto o = d.decode(b, f.size());
            delete[] b;
            got.insert(got.end(), o.begin(), o.end());
        }
        res.apiCalls += 1 + frames.size();
        if (frames.size() > 1)
            probe("built-payload-segmented");
        if (got.size() != 1)
            violate("build.decoder-reject." + cn, "decoder returned " + std::to_string(got.size()) + " packets for one built payload");
        else
        {
            lib::Obs o = lib::observe(got[0], true);
            if (!o.valid)
                violate("build.decoder-reject." + cn, "decoder marks the built payload invalid");
            else if (o.payload != after)
                violate("build.decoder-reject." + cn, "payload bytes change across encode/decode");
            else if (o.typed.cls != cls)
                violate("build.decoder-reject." + cn, "decoder returns class " + std::to_string(o.typed.cls) + " for a built " + cn + " payload");
            else if (o.typed.dataLen != t.dataLen || o.typed.vendorLen != t.vendorLen || o.typed.streamCount != t.streamCount ||
                     o.typed.data.off != t.data.off)
                violate("build.decoder-reject." + cn, "typed getters differ at the receiver");
        }
    }
}

void World::opProbe(const Item& op)
{
    const int cls = normCls(op.get("cls", wire::K_CAN));
    const int kind = static_cast<int>(op.get("kind", cls));
    const uint32_t id = static_cast<uint32_t>(op.get("id", 1));
    size_t len = static_cast<size_t>(std::min<int64_t>(std::max<int64_t>(0, op.get("len", 0)), 65535));
    Bytes body = kind == wire::K_GENERIC || op.get("rawbody", 0) ? contentBytes(id, 0, len) : makePayload(kind, len, id);
    if (kind == wire::K_CMSTAT && op.get("nonul", 0))
        body = makeCmNoNul(id);
    if (op.has("p1o") && !body.empty())
        body[static_cast<size_t>(std::max<int64_t>(0, op.get("p1o"))) % body.size()] = static_cast<uint8_t>(op.get("p1v"));
    if (op.has("p2o") && !body.empty())
        body[static_cast<size_t>(std::max<int64_t>(0, op.get("p2o"))) % body.size()] = static_cast<uint8_t>(op.get("p2v"));
    if (op.has("ilen"))
    {
        size_t off;
        int width;
        if (innerLenField(kind, body.data(), body.size(), static_cast<int>(op.get("iwhich", 0)), off, width) && off + width <= body.size())
        {
            if (width == 1)
                body[off] = static_cast<uint8_t>(op.get("ilen"));
            else
                wire::wr16(body.data() + off, static_cast<uint16_t>(op.get("ilen")));
            for (int64_t z = 0; z < op.get("izero", 0) && off + width + static_cast<size_t>(z) < body.size(); ++z)
                body[off + width + static_cast<size_t>(z)] = 0;
            fault("set-field");
        }
    }
    if (op.has("ilen2"))
    {
        size_t off;
        int width;
        if (innerLenField(kind, body.data(), body.size(), static_cast<int>(op.get("iwhich2", 1)), off, width) && off + width <= body.size())
        {
            if (width == 1)
                body[off] = static_cast<uint8_t>(op.get("ilen2"));
            else
                wire::wr16(body.data() + off, static_cast<uint16_t>(op.get("ilen2")));
            fault("set-field");
        }
    }
    if (op.has("cut"))
    {
        size_t k = static_cast<size_t>(std::max<int64_t>(0, op.get("cut")));
        if (k < body.size())
        {
            body.resize(k);
            fault("truncate");
        }
    }
    // exact-size heap buffer so that any read past the end is visible
    uint8_t* buf = new uint8_t[body.size() ? body.size() : 1];
    if (!body.empty())
        memcpy(buf, body.data(), body.size());
    lib::Probe pr = lib::probePayload(cls, buf, body.size());
    res.apiCalls++;
    delete[] buf;
    ev(pr.accepted ? 0xACC : 0x0EE);
    if (pr.accepted)
        probe("validator-accepted");
    else
        probe("validator-rejected");
    if (pr.accepted && body.size() <= wire::fixedSize(static_cast<wire::Kind>(cls)) + 8)
        probe("accepted-near-header-size");
    if (!pr.viewErr.empty() && is("C03"))
        violate("view.oob." + pr.viewErr, std::string("isValidPayload accepted a ") + clsName(cls) + " buffer of " + std::to_string(body.size()) +
                                              " bytes whose accessor view leaves it");
    // message level: header + payload
    if (op.get("msg", 1))
    {
        uint8_t mt = 1, pt = 1;
        wire::typeOfKind(static_cast<wire::Kind>(cls), mt, pt);
        wire::MsgHdr mh;
        mh.ts = id;
        mh.ptype = static_cast<uint8_t>(op.has("ptype") ? op.get("ptype") : pt);
        mh.flags = static_cast<uint8_t>(op.get("flags", 0));
        mh.plen = static_cast<uint16_t>(op.has("decl") ? op.get("decl") : static_cast<int64_t>(body.size()));
        Bytes msg(wire::MSG_HDR + body.size());
        wire::writeMsgHdr(msg.data(), mh);
        if (!body.empty())
            memcpy(msg.data() + wire::MSG_HDR, body.data(), body.size());
        if (op.has("mcut"))
            msg.resize(std::min<size_t>(msg.size(), static_cast<size_t>(std::max<int64_t>(0, op.get("mcut")))));
        uint8_t* mb = new uint8_t[msg.size() ? msg.size() : 1];
        if (!msg.empty())
            memcpy(mb, msg.data(), msg.size());
        lib::Probe pp = lib::probePacket(mt, mb, msg.size());
        res.apiCalls++;
        delete[] mb;
        ev(pp.accepted ? 0xACD : 0x0EF);
        if (pp.accepted)
            probe("message-accepted");
        if (!pp.viewErr.empty() && is("C03"))
            violate("view.oob." + pp.viewErr, "a message accepted by isValidPacket yields a valid packet whose accessor view leaves the payload");
    }
}

}  // namespace sim
