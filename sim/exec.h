// exec.h -- how a plan is executed for a given property: directly (most), three times under
// different fresh-memory fill patterns (C20), or on real threads under the seeded scheduler (C19).
#pragma once
#include <utility>
#include <vector>

#include "plan.h"
#include "world.h"

namespace sim
{
RunResult execForProp(const Plan& plan);
// implemented per build variant
RunResult execMemoryDifferential(const Plan& plan);  // mem.cpp
RunResult execThreads(const Plan& plan);             // threads.cpp
RunResult execInstances(const Plan& plan);           // threads.cpp: the same workloads interleaved on one thread (C19, asan variant)
const char* variantName();
// C19: the switch sequence (yield index, next thread) of the last scheduled run in this process
const std::vector<std::pair<uint64_t, int>>& lastSwitchLog();
}  // namespace sim
