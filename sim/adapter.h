// adapter.h -- the ONLY interface between the simulator and the library under test.
// It exposes plain structs and opaque handles; no library type leaks through it, so the
// oracles and reference models (which include this header and wire.h only) stay independent
// of the library's headers and of its operator==.
#pragma once
#include <cstddef>
#include <cstdint>
#include <memory>
#include <string>
#include <vector>

namespace lib
{

using Bytes = std::vector<uint8_t>;

// a (pointer, length) view reported by a typed accessor, relative to getRawPayload()
struct View
{
    int64_t off{-1};  // -1: accessor returned nullptr
    uint64_t len{0};
};

// everything the typed accessors of a payload class report
struct Typed
{
    int cls{0};  // wire::Kind of the typed class that was observed, 0 = none
    // CAN / CAN-FD / LIN / Ethernet / analog
    uint16_t flags{0};
    uint32_t id{0};
    bool rsvd{false}, rtr{false}, ide{false}, crcSupport{false};
    uint32_t crc{0};
    uint8_t sbc{0};
    bool sbcParity{false}, sbcSupport{false};
    uint16_t errPos{0};
    uint8_t dlc{0};
    uint32_t dataLen{0};
    View data;
    uint8_t linId{0}, parity{0}, checksum{0};
    uint32_t samples{0};
    uint16_t sampleDt{0};
    uint8_t unit{0};
    uint32_t interval{0}, offset{0}, scalar{0};  // float bit patterns
    // capture-module status
    uint64_t uptime{0}, gmIdentity{0};
    uint32_t gmClockQuality{0};
    uint16_t utcOffset{0};
    uint8_t timeSource{0}, domain{0}, gptpFlags{0};
    View str[4];
    std::string strVal[4];
    View vendor;
    uint32_t vendorLen{0};
    // interface status
    uint32_t ifId{0}, msgTotalRx{0}, msgTotalTx{0}, msgDroppedRx{0}, msgDroppedTx{0}, errTotalRx{0}, errTotalTx{0};
    uint8_t ifType{0}, ifStatus{0};
    uint32_t featureMask{0};
    uint32_t streamCount{0};
    View streams;
};

// one observed packet: every getter, every payload byte
struct Obs
{
    bool hasPayload{false};
    bool valid{false};
    uint8_t version{0};
    uint16_t dev{0};
    uint8_t stream{0};
    uint16_t seq{0};
    uint8_t mtype{0};
    uint8_t ptype{0};
    uint32_t typeCode{0};
    uint64_t ts{0};
    uint32_t ifid{0};
    uint16_t vendor{0};
    uint8_t flags{0};
    uint8_t flagQuery{0};  // bit i: Packet::getCommonFlag(mask i) for recalc, insync, seg, diOnIf, overflow, errorInPayload
    uint8_t segType{0};
    uint32_t plen{0};
    Bytes payload;
    Typed typed;
    Bytes rawCmpHeader;  // Packet::getRawCmpHeader into fresh (never cleared) memory
    Bytes rawMsgHeader;  // Packet::getRawMessageHeader into fresh (never cleared) memory
    std::string viewErr;  // C03: first accessor whose view leaves the payload ("class.accessor"), empty if none
};

using PacketRef = std::shared_ptr<void>;

// called right before every library API call made through this adapter (C20: stack scribbler)
void setPreCallHook(void (*hook)());

// TECMP decoding runs under a global C++ locale with digit grouping and a decimal comma (restored after each call)
void setHostileLocale(bool on);
// some packets handed to the encoder are moved-from objects re-used after setPayload only (C20 runs)
void setMovedFromReuse(bool on);

Obs observe(const PacketRef& p, bool typedViews = true);
// digest over every getter and payload byte (used to prove a packet owns its data)
uint64_t digest(const PacketRef& p);
bool isNull(const PacketRef& p);

// ------------------------------------------------------------------ encoder side
struct MsgSpec
{
    uint8_t version{1};
    uint8_t mtype{1};
    uint8_t ptype{1};
    uint64_t ts{0};
    uint32_t id32{0};  // interface id (data) or vendor id in the low 16 bits (status / vendor)
    uint8_t flags{0};
    int build{0};      // 0 generic Payload ctor, 1 Packet parse ctor, 2 typed class from raw bytes
    const uint8_t* payload{nullptr};
    size_t len{0};
    uint64_t junk{0};  // seeds values for packet fields the encoder must ignore (device, stream, counter, other id)
};

// a packet assembled through the public API (setPayload + setters), e.g. for direct Status::update calls
PacketRef makePacket(const MsgSpec& m, uint16_t dev, uint8_t stream, uint16_t seq = 0);

class Enc
{
public:
    Enc();
    ~Enc();
    Enc(const Enc&) = delete;
    Enc& operator=(const Enc&) = delete;
    void setDev(uint16_t v);
    void setStream(uint8_t v);
    void restart();
    uint16_t dev() const;
    uint8_t stream() const;
    uint16_t counter() const;
    // object lifecycle event (copy / move / assign / swap, see adapter.cpp); the logical state must be unchanged
    void lifecycle(int how);
    std::unique_ptr<Enc> clone() const;  // a copy-constructed encoder in a new wrapper
    // mode: 0 vector<Packet>, 1 vector<shared_ptr<Packet>>, 2 single packet (batch of one), 3 std::list<Packet>
    std::vector<Bytes> encode(const std::vector<MsgSpec>& batch, size_t minBytes, size_t maxBytes, int mode);
    // packets that came out of a decoder, encoded again (mode 0 copies in a vector, 1 the very shared_ptr objects, 2 single)
    // an encode call over the same packets that an exception out of the caller's iterator aborts at packet throwAt
    // (where: 0 on dereference, 1 on increment; 2: plain iterators, the throwAt-th allocation inside the call fails); true if it was aborted
    bool encodeAborted(const std::vector<MsgSpec>& batch, size_t minBytes, size_t maxBytes, size_t throwAt, int where);
    // encode calls in which a forked copy of the encoder (lifecycle 9) returned other frames than the original
    uint64_t shadowDiverged() const;
    std::vector<Bytes> encodeRefs(const std::vector<PacketRef>& batch, size_t minBytes, size_t maxBytes, int mode);

private:
    struct Impl;
    Impl* d;
};

// ------------------------------------------------------------------ decoder side
struct Pending
{
    uint16_t dev;
    uint8_t stream;
    uint64_t bytes;
    bool operator<(const Pending& o) const
    {
        return dev != o.dev ? dev < o.dev : stream < o.stream;
    }
};

class Dec
{
public:
    Dec();
    ~Dec();
    Dec(const Dec&) = delete;
    Dec& operator=(const Dec&) = delete;
    // allocFailAt >= 0: the allocFailAt-th allocation inside the call fails (asan variant; elsewhere it never fires)
    std::vector<PacketRef> decode(const uint8_t* data, size_t size, long allocFailAt = -1);
    bool lastCallThrew() const
    {
        return lastThrew;
    }
    bool lastCallAllocFailed() const
    {
        return lastFired;
    }
    void lifecycle(int how);
    std::unique_ptr<Dec> clone() const;
    // non-zero: returned packets are (deterministically, about half of them) handed on as copies / moved / assigned objects
    void setPacketLife(uint64_t seed);
    // basic-block edges of library code the last decode call itself executed (without the harness's copies of its results)
    uint64_t lastCallEdges() const;
    // decode calls in which a forked copy of the decoder (lifecycle 9) returned something else than the original
    uint64_t shadowDiverged() const;
    // C17 hook (needs the library built with ASAM_CMP_LIB_VERIF); sorted
    static bool hasPendingHook();
    std::vector<Pending> pending() const;
    static std::vector<PacketRef> tecmpDecode(const uint8_t* data, size_t size);

private:
    struct Impl;
    Impl* d;
    uint64_t lifeSeed{0};
    uint64_t calls{0};
    uint64_t shadowDiffs{0};
    uint64_t lastEdges{0};
    bool lastThrew{false};
    bool lastFired{false};
    uint64_t lastAllocs{0};
};

// ------------------------------------------------------------------ status tracker
class Stat
{
public:
    Stat();
    ~Stat();
    Stat(const Stat&) = delete;
    Stat& operator=(const Stat&) = delete;
    void update(const PacketRef& p);
    void lifecycle(int how);
    std::unique_ptr<Stat> clone() const;
    void clear();
    void removeDev(uint16_t dev);
    bool removeIf(uint16_t dev, uint32_t ifid);  // false if the device is unknown (nothing called)
    uint64_t digestAll() const;  // digest of every stored packet (untyped getters, raw bytes) and the index structure
    size_t devCount() const;
    size_t idxDev(uint16_t dev) const;
    Obs devPacket(size_t i, bool viaConst) const;
    size_t ifCount(size_t i) const;
    size_t idxIf(size_t i, uint32_t ifid) const;
    uint32_t ifId(size_t i, size_t j) const;
    Obs ifPacket(size_t i, size_t j, bool viaConst) const;

private:
    struct Impl;
    Impl* d;
};

// ------------------------------------------------------------------ payload validity probes (C03)
struct Probe
{
    bool accepted{false};
    std::string viewErr;
};
// cls is a wire::Kind of a typed class. If T::isValidPayload(buf,n) accepts, builds T(buf,n),
// runs every const accessor and checks every view.
Probe probePayload(int cls, const uint8_t* buf, size_t n);
// Packet::isValidPacket(buf,n) => Packet(mtype,buf,n) must construct; observes it
Probe probePacket(uint8_t mtype, const uint8_t* buf, size_t n);

// ------------------------------------------------------------------ payload builders (C13)
// A long-lived payload object of one typed class, driven through its public setters.
struct BuildFields
{
    // header fields set before setData (meaning depends on class; see adapter.cpp)
    uint64_t a{0}, b{0};
    uint32_t c{0}, d{0}, e{0}, f{0}, g{0}, h{0};
    uint16_t flags{0};
    uint8_t x{0}, y{0}, z{0};
    bool setHeader{false};
};
struct BuildData
{
    Bytes data;            // CAN/LIN/Ethernet/analog data, or interface stream ids
    Bytes vendor;          // vendor data (capture module, interface)
    std::string str[4];    // capture module strings
};
class Builder
{
public:
    explicit Builder(int cls);
    // the object is constructed from wire bytes with the class's public (data, size) constructor (any size, also shorter than the header)
    Builder(int cls, const uint8_t* wire, size_t n);
    ~Builder();
    Builder(const Builder&) = delete;
    Builder& operator=(const Builder&) = delete;
    void setHeaderFields(const BuildFields& f);
    void setData(const BuildData& d);
    // setData whose arguments are the object's OWN views (pointers returned by its getters): how 0 everything as it is
    // (a no-op), how 1 a prefix of its own data / its own stream ids with external vendor data that is not longer than
    // the old one (no growth, so no reallocation: the views stay valid during the call on a correct library).
    // Returns false (nothing done) for classes / states where that is not a defined use.
    bool setDataAliased(int how, const BuildData& d);
    // copy assignment between two payload objects of the same class
    void assignFrom(const Builder& other);
    Bytes raw() const;
    Typed typed(std::string& viewErr) const;
    bool selfValid() const;  // T::isValidPayload(own bytes)
    uint8_t mtype() const;
    uint8_t ptype() const;
    // a packet carrying a copy of this payload (for encode -> wire -> decode)
    MsgSpec spec() const;

private:
    struct Impl;
    Impl* d;
    mutable Bytes specBuf;
};

}  // namespace lib
