// wire.h -- independent reader/writer for ASAM CMP 1.0 and TECMP frames.
// Written from the protocol layout (byte offsets), NOT from the library's headers: this file
// and everything that includes only this file never sees a library type. It is the "peer
// implementation" the oracles use, and part of the trusted base of C04 C05 C07 C08 C09 C13 C15.
#pragma once
#include <cstddef>
#include <cstdint>
#include <cstring>
#include <string>
#include <vector>

namespace wire
{

using Bytes = std::vector<uint8_t>;

inline uint16_t rd16(const uint8_t* p)
{
    return static_cast<uint16_t>((p[0] << 8) | p[1]);
}
inline uint32_t rd32(const uint8_t* p)
{
    return (static_cast<uint32_t>(p[0]) << 24) | (static_cast<uint32_t>(p[1]) << 16) | (static_cast<uint32_t>(p[2]) << 8) | p[3];
}
inline uint64_t rd64(const uint8_t* p)
{
    return (static_cast<uint64_t>(rd32(p)) << 32) | rd32(p + 4);
}
inline void wr16(uint8_t* p, uint16_t v)
{
    p[0] = static_cast<uint8_t>(v >> 8);
    p[1] = static_cast<uint8_t>(v);
}
inline void wr32(uint8_t* p, uint32_t v)
{
    p[0] = static_cast<uint8_t>(v >> 24);
    p[1] = static_cast<uint8_t>(v >> 16);
    p[2] = static_cast<uint8_t>(v >> 8);
    p[3] = static_cast<uint8_t>(v);
}
inline void wr64(uint8_t* p, uint64_t v)
{
    wr32(p, static_cast<uint32_t>(v >> 32));
    wr32(p + 4, static_cast<uint32_t>(v));
}

// ---------------------------------------------------------------- CMP header (8 bytes)
constexpr size_t CMP_HDR = 8;
constexpr size_t MSG_HDR = 16;

struct CmpHdr
{
    uint8_t version{1};
    uint8_t reserved{0};
    uint16_t dev{0};
    uint8_t mtype{0};
    uint8_t stream{0};
    uint16_t ctr{0};
};

inline CmpHdr parseCmpHdr(const uint8_t* p)
{
    CmpHdr h;
    h.version = p[0];
    h.reserved = p[1];
    h.dev = rd16(p + 2);
    h.mtype = p[4];
    h.stream = p[5];
    h.ctr = rd16(p + 6);
    return h;
}
inline void writeCmpHdr(uint8_t* p, const CmpHdr& h)
{
    p[0] = h.version;
    p[1] = h.reserved;
    wr16(p + 2, h.dev);
    p[4] = h.mtype;
    p[5] = h.stream;
    wr16(p + 6, h.ctr);
}

// message types
constexpr uint8_t MT_DATA = 1, MT_CONTROL = 2, MT_STATUS = 3, MT_VENDOR = 0xFF;

// ---------------------------------------------------------------- message header (16 bytes)
// timestamp@0 BE64 ; data: interface id@8 BE32 ; status/vendor: reserved@8, vendor id@10 BE16 ;
// common flags@12 (bit0 recalc, bit1 insync, bits2-3 seg, bit4 di_on_if, bit5 overflow,
// bit6 error in payload) ; payload type@13 ; payload length@14 BE16
constexpr uint8_t SEG_MASK = 0x0C, SEG_NONE = 0x00, SEG_FIRST = 0x04, SEG_MID = 0x08, SEG_LAST = 0x0C;
constexpr uint8_t FLAG_ERR_IN_PAYLOAD = 0x40;

struct MsgHdr
{
    uint64_t ts{0};
    uint32_t id32{0};  // the four bytes at offset 8 as BE32 (interface id for data messages)
    uint8_t flags{0};
    uint8_t ptype{0};
    uint16_t plen{0};

    uint16_t vendor() const
    {
        return static_cast<uint16_t>(id32 & 0xFFFF);
    }
    uint8_t seg() const
    {
        return flags & SEG_MASK;
    }
};

inline MsgHdr parseMsgHdr(const uint8_t* p)
{
    MsgHdr h;
    h.ts = rd64(p);
    h.id32 = rd32(p + 8);
    h.flags = p[12];
    h.ptype = p[13];
    h.plen = rd16(p + 14);
    return h;
}
inline void writeMsgHdr(uint8_t* p, const MsgHdr& h)
{
    wr64(p, h.ts);
    wr32(p + 8, h.id32);
    p[12] = h.flags;
    p[13] = h.ptype;
    wr16(p + 14, h.plen);
}

// does the message type carry an interface id (true) or a vendor id (false) or nothing (-1)?
enum IdKind
{
    ID_NONE = 0,
    ID_INTERFACE = 1,
    ID_VENDOR = 2
};
inline IdKind idKindOf(uint8_t mtype)
{
    if (mtype == MT_DATA)
        return ID_INTERFACE;
    if (mtype == MT_STATUS || mtype == MT_VENDOR)
        return ID_VENDOR;
    return ID_NONE;
}

// ---------------------------------------------------------------- payload kinds
enum Kind
{
    K_GENERIC = 0,
    K_CAN = 1,
    K_CANFD = 2,
    K_LIN = 3,
    K_ANALOG = 7,
    K_ETH = 8,
    K_CMSTAT = 0x31,
    K_IFSTAT = 0x32
};

inline Kind kindOf(uint8_t mtype, uint8_t ptype)
{
    if (mtype == MT_DATA)
    {
        switch (ptype)
        {
            case 1:
                return K_CAN;
            case 2:
                return K_CANFD;
            case 3:
                return K_LIN;
            case 7:
                return K_ANALOG;
            case 8:
                return K_ETH;
            default:
                return K_GENERIC;
        }
    }
    if (mtype == MT_STATUS)
    {
        if (ptype == 1)
            return K_CMSTAT;
        if (ptype == 2)
            return K_IFSTAT;
    }
    return K_GENERIC;
}

inline void typeOfKind(Kind k, uint8_t& mtype, uint8_t& ptype)
{
    switch (k)
    {
        case K_CAN:
            mtype = MT_DATA, ptype = 1;
            break;
        case K_CANFD:
            mtype = MT_DATA, ptype = 2;
            break;
        case K_LIN:
            mtype = MT_DATA, ptype = 3;
            break;
        case K_ANALOG:
            mtype = MT_DATA, ptype = 7;
            break;
        case K_ETH:
            mtype = MT_DATA, ptype = 8;
            break;
        case K_CMSTAT:
            mtype = MT_STATUS, ptype = 1;
            break;
        case K_IFSTAT:
            mtype = MT_STATUS, ptype = 2;
            break;
        default:
            break;
    }
}

// size of the fixed part of each kind
constexpr size_t CAN_FIXED = 16;     // flags@0 BE16, rsvd@2, id@4 BE32, crc@8 BE32, errpos@12 BE16, dlc@14, dataLength@15, data@16
constexpr size_t LIN_FIXED = 8;      // flags@0 BE16, rsvd@2, pid@4, rsvd@5, checksum@6, dataLength@7, data@8
constexpr size_t ETH_FIXED = 6;      // flags@0 BE16, rsvd@2, dataLength@4 BE16, data@6
constexpr size_t ANALOG_FIXED = 16;  // flags@0 BE16 (sample dt bits 0-1), rsvd@2, unit@3, interval@4, offset@8, scalar@12, data@16
constexpr size_t CM_FIXED = 26;      // uptime@0 BE64, gm identity@8 BE64, gm clock quality@16 BE32, utc offset@20 BE16,
                                     // time source@22, domain@23, rsvd@24, gptp flags@25, then 4x (BE16 len + bytes), BE16 len + vendor data
constexpr size_t IF_FIXED = 36;      // interface id@0 BE32, 6 x BE32 counters@4.., type@28, status@29, rsvd@30, feature mask@32 BE32,
                                     // then BE16 stream-id count, ids, pad to even, BE16 vendor length, vendor data

inline size_t fixedSize(Kind k)
{
    switch (k)
    {
        case K_CAN:
        case K_CANFD:
            return CAN_FIXED;
        case K_LIN:
            return LIN_FIXED;
        case K_ETH:
            return ETH_FIXED;
        case K_ANALOG:
            return ANALOG_FIXED;
        case K_CMSTAT:
            return CM_FIXED;
        case K_IFSTAT:
            return IF_FIXED;
        default:
            return 0;
    }
}

constexpr uint16_t CAN_ERR_FLAGS = 0x03FF;  // crc, ack, passive ack, active ack, ack del, form, stuff, crc del, eof, bit error
constexpr uint16_t ETH_HARD_ERR_FLAGS = 0x0039;  // fcs error, collision, frame too long, phy error
constexpr uint16_t ETH_ANY_NOTE_FLAGS = 0x007F;  // everything but "fcs supported"

// Walk result of the variable part of a status payload
struct Walk
{
    bool ok{false};    // every length fits
    size_t end{0};     // offset just behind the last element (valid if ok)
    size_t off[5]{};   // element data offsets
    size_t len[5]{};   // element lengths
};

// capture-module status: four strings then vendor data, each BE16 length prefixed
inline Walk walkCm(const uint8_t* p, size_t n)
{
    Walk w;
    if (n < CM_FIXED)
        return w;
    size_t pos = CM_FIXED;
    for (int i = 0; i < 5; ++i)
    {
        if (pos + 2 > n)
            return w;
        size_t l = rd16(p + pos);
        pos += 2;
        if (pos + l > n)
            return w;
        w.off[i] = pos;
        w.len[i] = l;
        pos += l;
    }
    w.ok = true;
    w.end = pos;
    return w;
}

// interface status: BE16 count, ids, pad to even, BE16 vendor length, vendor data
inline Walk walkIf(const uint8_t* p, size_t n)
{
    Walk w;
    if (n < IF_FIXED)
        return w;
    size_t pos = IF_FIXED;
    if (pos + 2 > n)
        return w;
    size_t cnt = rd16(p + pos);
    pos += 2;
    if (pos + cnt > n)
        return w;
    w.off[0] = pos;
    w.len[0] = cnt;
    pos += cnt + (cnt & 1);
    if (pos + 2 > n)
        return w;
    size_t vl = rd16(p + pos);
    pos += 2;
    if (pos + vl > n)
        return w;
    w.off[1] = pos;
    w.len[1] = vl;
    pos += vl;
    w.ok = true;
    w.end = pos;
    return w;
}

enum Validity
{
    MUST_VALID = 0,
    MUST_INVALID = 1,
    UNSPEC = 2
};

// What C04 lets us demand about a payload of the given kind (see DESIGN.md, C04).
inline Validity classify(uint8_t mtype, uint8_t ptype, const uint8_t* p, size_t n)
{
    if (mtype == 0 || ptype == 0)
        return UNSPEC;
    Kind k = kindOf(mtype, ptype);
    switch (k)
    {
        case K_CAN:
        case K_CANFD:
        {
            if (n < CAN_FIXED)
                return MUST_INVALID;
            uint16_t fl = rd16(p);
            if (fl & CAN_ERR_FLAGS)
                return MUST_INVALID;
            if (p[15] > n - CAN_FIXED)
                return MUST_INVALID;
            if (rd16(p + 12) != 0)
                return UNSPEC;  // only an error position, no error flag
            return MUST_VALID;
        }
        case K_LIN:
        {
            if (n < LIN_FIXED)
                return MUST_INVALID;
            if (p[7] > n - LIN_FIXED)
                return MUST_INVALID;
            if (rd16(p) & 0x00FF)
                return UNSPEC;  // LIN error flags: the property only names CAN, CAN-FD, Ethernet
            return MUST_VALID;
        }
        case K_ETH:
        {
            if (n < ETH_FIXED)
                return MUST_INVALID;
            uint16_t fl = rd16(p);
            if (fl & ETH_HARD_ERR_FLAGS)
                return MUST_INVALID;
            if (rd16(p + 4) > n - ETH_FIXED)
                return MUST_INVALID;
            if (fl & ETH_ANY_NOTE_FLAGS)
                return UNSPEC;
            return MUST_VALID;
        }
        case K_ANALOG:
        {
            if (n < ANALOG_FIXED)
                return MUST_INVALID;
            uint16_t fl = rd16(p);
            if ((fl & 3) > 1)
                return UNSPEC;
            return MUST_VALID;
        }
        case K_CMSTAT:
        {
            if (n < CM_FIXED)
                return MUST_INVALID;
            Walk w = walkCm(p, n);
            if (!w.ok)
                return MUST_INVALID;
            return w.end == n ? MUST_VALID : UNSPEC;
        }
        case K_IFSTAT:
        {
            if (n < IF_FIXED)
                return MUST_INVALID;
            Walk w = walkIf(p, n);
            if (!w.ok)
                return MUST_INVALID;
            if (p[29] > 2)
                return UNSPEC;
            return w.end == n ? MUST_VALID : UNSPEC;
        }
        default:
            return MUST_VALID;
    }
}

// CAN DLC code of a data length that has one (CAN / CAN FD standard); -1 otherwise
inline int dlcOf(unsigned len)
{
    if (len <= 8)
        return static_cast<int>(len);
    switch (len)
    {
        case 12:
            return 9;
        case 16:
            return 10;
        case 20:
            return 11;
        case 24:
            return 12;
        case 32:
            return 13;
        case 48:
            return 14;
        case 64:
            return 15;
        default:
            return -1;
    }
}

// ---------------------------------------------------------------- frame walking
struct MsgRef
{
    size_t off{0};  // offset of the message header in the frame
    MsgHdr h;
    size_t payloadOff() const
    {
        return off + MSG_HDR;
    }
};

// Parse a frame into header, complete messages and the rest. Never trusts anything.
struct FrameParse
{
    bool hasHeader{false};
    CmpHdr hdr;
    std::vector<MsgRef> msgs;  // complete messages (header + declared payload fit)
    size_t used{0};            // offset just behind the last complete message
};

// Walk messages as long as a complete one with non-zero payload type remains.
// (A zero payload type does not exist on the wire; zero bytes after the last message are padding.)
inline FrameParse parseFrame(const uint8_t* p, size_t n)
{
    FrameParse f;
    if (n < CMP_HDR)
        return f;
    f.hasHeader = true;
    f.hdr = parseCmpHdr(p);
    size_t pos = CMP_HDR;
    while (n - pos >= MSG_HDR)
    {
        MsgHdr h = parseMsgHdr(p + pos);
        if (h.ptype == 0)
            break;
        if (static_cast<size_t>(h.plen) > n - pos - MSG_HDR)
            break;
        MsgRef r;
        r.off = pos;
        r.h = h;
        f.msgs.push_back(r);
        pos += MSG_HDR + h.plen;
    }
    f.used = pos;
    return f;
}

// ---------------------------------------------------------------- TECMP (as this decoder family speaks it)
// 28-byte header: device id@0 BE16 (high byte 0 marks TECMP for the shared decoder), counter@2 BE16,
// version@4, message type@5, data type@6 BE16, reserved@8, device flags@10 BE16, interface id@12 BE32,
// timestamp@16 BE64, payload length@24 BE16, data flags@26 BE16
constexpr size_t TECMP_HDR = 28;
constexpr uint8_t TMT_CONTROL = 0, TMT_CMSTATUS = 1, TMT_BUSSTATUS = 2, TMT_DATA = 3;
constexpr uint16_t TDT_CAN = 2, TDT_CANFD = 3, TDT_LIN = 4;

struct TecmpHdr
{
    uint16_t dev{0};
    uint16_t ctr{0};
    uint8_t version{3};
    uint8_t mtype{0};
    uint16_t dtype{0};
    uint16_t reserved{0};
    uint16_t devFlags{0};
    uint32_t ifid{0};
    uint64_t ts{0};
    uint16_t plen{0};
    uint16_t dataFlags{0};
};
inline TecmpHdr parseTecmpHdr(const uint8_t* p)
{
    TecmpHdr h;
    h.dev = rd16(p);
    h.ctr = rd16(p + 2);
    h.version = p[4];
    h.mtype = p[5];
    h.dtype = rd16(p + 6);
    h.reserved = rd16(p + 8);
    h.devFlags = rd16(p + 10);
    h.ifid = rd32(p + 12);
    h.ts = rd64(p + 16);
    h.plen = rd16(p + 24);
    h.dataFlags = rd16(p + 26);
    return h;
}
inline void writeTecmpHdr(uint8_t* p, const TecmpHdr& h)
{
    wr16(p, h.dev);
    wr16(p + 2, h.ctr);
    p[4] = h.version;
    p[5] = h.mtype;
    wr16(p + 6, h.dtype);
    wr16(p + 8, h.reserved);
    wr16(p + 10, h.devFlags);
    wr32(p + 12, h.ifid);
    wr64(p + 16, h.ts);
    wr16(p + 24, h.plen);
    wr16(p + 26, h.dataFlags);
}
// TECMP payloads:
//   CAN / CAN-FD : arbitration id@0 BE32, data length@4, data@5 (optionally followed by CRC bytes)
//   LIN          : id@0, data length@1, data@2, checksum@2+len
//   cm status    : vendor id@0, version@1, type@2, rsvd@3, vendor data length@4 BE16, device id@6 BE16,
//                  serial number@8 BE32, vendor data@12: rsvd, sw major@13, minor@14, patch@15, hw major@16, minor@17, ... (36 bytes)
//   bus status   : the same 12 generic bytes, then 12-byte entries: interface id BE32, messages total BE32, errors total BE32
constexpr size_t TECMP_CAN_FIXED = 5, TECMP_LIN_FIXED = 2, TECMP_CM_FIXED = 36, TECMP_BUS_GENERIC = 12, TECMP_BUS_ENTRY = 12;

}  // namespace wire
