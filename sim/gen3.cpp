// gen3.cpp -- plan generators: C03 (validity probes), C13 (builders), C15 (TECMP), C16 (status tracker)
#include <map>

#include "gen_common.h"

namespace sim
{

static const int kTyped[7] = {wire::K_CAN, wire::K_CANFD, wire::K_LIN, wire::K_ETH, wire::K_ANALOG, wire::K_CMSTAT, wire::K_IFSTAT};

// ---------------------------------------------------------------------------------------------- C03
Plan genProbe(const std::string& prop, int tier, uint64_t batchSeed, uint64_t idx)
{
    Gen g(prop, tier, batchSeed, idx);
    Rng& r = g.rng;
    g.cfg().set("rx", 1);
    g.addNode(1, 2, 1, 1);
    g.addNode(2, 2, 2, 1);
    const int mode = static_cast<int>(r.below(4));
    if (mode == 0)
    {
        // systematic: one base payload of one class, every truncation length 0 .. fixed+8, on every typed class's validator
        const int cls = kTyped[r.below(7)];
        const int64_t fixed = static_cast<int64_t>(wire::fixedSize(static_cast<wire::Kind>(cls)));
        const int64_t baseLen = static_cast<int64_t>(minLenOf(cls)) + r.range(0, 40);
        const uint32_t id = g.msgId();
        const bool cross = r.chance(1, 4);
        for (int64_t k = 0; k <= fixed + 8; ++k)
        {
            Item& op = g.addOp(OP_PROBE, -1, 0);
            op.set("cls", cross ? kTyped[r.below(7)] : cls).set("kind", cls).set("len", baseLen).set("id", id).set("cut", k);
        }
    }
    else if (mode == 1)
    {
        // every boundary value of every inner length field of one payload
        const int cls = kTyped[r.below(7)];
        const int64_t baseLen = static_cast<int64_t>(minLenOf(cls)) + r.range(0, 60);
        const uint32_t id = g.msgId();
        const int fields = cls == wire::K_CMSTAT ? 5 : (cls == wire::K_IFSTAT ? 3 : (cls == wire::K_CAN || cls == wire::K_CANFD ? 2 : 1));
        const int64_t room = baseLen - static_cast<int64_t>(wire::fixedSize(static_cast<wire::Kind>(cls)));
        for (int w = 0; w < fields; ++w)
            for (int64_t v : {int64_t(0), int64_t(1), int64_t(2), room - 2, room - 1, room, room + 1, room + 2, int64_t(0x7F), int64_t(0x80), int64_t(0xFF),
                              int64_t(0x100), int64_t(0x7FFF), int64_t(0x8000), int64_t(0xFFFE), int64_t(0xFFFF)})
            {
                if (v < 0)
                    continue;
                Item& op = g.addOp(OP_PROBE, -1, 0);
                op.set("cls", cls).set("kind", cls).set("len", baseLen).set("id", id).set("ilen", v).set("iwhich", w);
                if (r.chance(1, 3))
                    op.set("izero", r.range(1, 4));
                if (r.chance(1, 4))
                    op.set("cut", r.range(0, baseLen));
            }
    }
    else if (mode == 2)
    {
        // random probes: any class on any content
        const size_t n = 5 + r.below(40);
        for (size_t k = 0; k < n; ++k)
        {
            Item& op = g.addOp(OP_PROBE, -1, 0);
            const int cls = kTyped[r.below(7)];
            const int kind = r.chance(2, 3) ? cls : (r.chance(1, 2) ? 0 : kTyped[r.below(7)]);
            op.set("cls", cls).set("kind", kind).set("id", g.msgId());
            op.set("len", r.chance(1, 2) ? static_cast<int64_t>(minLenOf(kind)) + r.range(0, 50) : r.logRange(0, 3000));
            if (r.chance(1, 2))
                op.set("cut", r.chance(1, 2) ? r.range(0, 50) : r.logRange(0, 3000));
            if (r.chance(1, 3))
                op.set("ilen", r.pick<int64_t>({0, 1, 0xFF, 0x7FFF, 0xFFFF, static_cast<int64_t>(r.below(70000))})).set("iwhich", static_cast<int64_t>(r.below(5)));
            if (r.chance(1, 4))
            {
                // two length fields with related values: the element ends 0..2 bytes before / at / behind the end of the payload
                const int64_t room = op.get("len") - static_cast<int64_t>(wire::fixedSize(static_cast<wire::Kind>(kind)));
                op.set("ilen", std::max<int64_t>(0, r.range(0, std::max<int64_t>(0, room)))).set("iwhich", static_cast<int64_t>(r.below(4)));
                op.set("ilen2", std::max<int64_t>(0, room - op.get("ilen") - r.range(-2, 14))).set("iwhich2", op.get("iwhich") + 1 + static_cast<int64_t>(r.below(2)));
            }
            if (r.chance(1, 4))
                op.set("p1o", r.range(0, 60)).set("p1v", static_cast<int64_t>(r.below(256)));
            if (r.chance(1, 6))
                op.set("rawbody", 1);
            if (kind == wire::K_CMSTAT && r.chance(1, 3))
            {
                op.set("nonul", 1);  // content-dependent: nothing behind the last string is zero
                op.erase("cut");
                op.erase("ilen");
                op.erase("ilen2");
            }
            if (r.chance(1, 8))
                op.set("mcut", r.range(0, 40));
            if (r.chance(1, 8))
                op.set("decl", r.pick<int64_t>({0, 1, 0xFFFF, static_cast<int64_t>(r.below(300))}));
        }
    }
    else
    {
        // the same corruptions in transit: typed packets the decoder hands out as valid
        const size_t n = 3 + r.below(20);
        for (size_t k = 0; k < n; ++k)
        {
            Item& op = g.addOp(OP_RAW, static_cast<int>(1 + r.below(2)), 1);
            const int64_t mt = r.pick<int64_t>({1, 1, 3});
            op.set("ver", 1).set("mtype", mt);
            size_t nm = 1 + r.below(3);
            for (size_t q = 0; q < nm; ++q)
            {
                Item m("m");
                const int kind = mt == 1 ? r.pick<int>({wire::K_CAN, wire::K_CANFD, wire::K_LIN, wire::K_ANALOG, wire::K_ETH})
                                         : r.pick<int>({wire::K_CMSTAT, wire::K_IFSTAT});
                const int64_t fixed = static_cast<int64_t>(wire::fixedSize(static_cast<wire::Kind>(kind)));
                m.set("kind", kind).set("id", g.msgId());
                if (r.chance(1, 3))
                    m.set("len", fixed + r.range(0, 8)).set("rawbody", static_cast<int64_t>(r.below(2)));
                else
                    m.set("len", static_cast<int64_t>(minLenOf(kind)) + r.range(0, 50));
                if (r.chance(1, 2))
                    m.set("ilen", r.pick<int64_t>({0, 1, 7, 8, 9, 0x40, 0xFF, 0x7FFF, 0xFFFF, static_cast<int64_t>(r.below(400))}))
                        .set("iwhich", static_cast<int64_t>(r.below(kind == wire::K_CMSTAT ? 5 : 2)));
                else if (kind == wire::K_CMSTAT && r.chance(1, 2))
                    m.set("nonul", 1);
                // payload-level flag bits together with inconsistent lengths (flags live in the first two bytes)
                if (kind != wire::K_CMSTAT && kind != wire::K_IFSTAT && r.chance(1, 3))
                    m.set("p1o", static_cast<int64_t>(r.below(2))).set("p1v", 1LL << r.below(8));
                op.sub.push_back(std::move(m));
            }
            if (r.chance(1, 4))
                addFault(op, F_TRUNC, 0, r.range(8, 120));
        }
    }
    return g.finish();
}

// ---------------------------------------------------------------------------------------------- C13
Plan genBuild(const std::string& prop, int tier, uint64_t batchSeed, uint64_t idx)
{
    Gen g(prop, tier, batchSeed, idx);
    Rng& r = g.rng;
    g.cfg().set("rx", 0);
    const size_t nObj = 1 + r.below(3);
    std::vector<int> cls(nObj);
    for (auto& c : cls)
        c = kTyped[r.below(7)];
    // re-use policy of this run
    const int policy = static_cast<int>(r.below(5));  // 0 fresh each time, 1 long then short, 2 short then long, 3 same length, 4 random
    // (one run in fifty: hundreds of setData calls on the same objects)
    const bool manySets = r.chance(1, 50);
    const size_t nOps = manySets ? 270 + r.below(850) : 2 + r.below(tier ? 30 : 12);
    std::vector<int64_t> prevN(nObj, -1);
    for (size_t o = 0; o < nOps; ++o)
    {
        const size_t oi = r.below(nObj);
        const int c = cls[oi];
        Item& op = g.addOp(OP_BUILD, -1, 0);
        op.set("cls", c).set("obj", static_cast<int64_t>(oi)).set("id", g.msgId());
        if (!manySets && (policy == 0 || r.chance(1, 10)))
            op.set("fresh", 1);
        if (!manySets && r.chance(1, 8))
        {
            // the object is (re)born from wire bytes: lengths / DLC that need not match, possibly shorter than the header
            op.set("fromwire", 1).set("wid", g.msgId()).set("wlen", static_cast<int64_t>(minLenOf(c)) + r.range(0, 40));
            if (r.chance(1, 2))
                op.set("wl1", static_cast<int64_t>(r.below(16))).set("wl2", static_cast<int64_t>(r.below(70)));
            if (r.chance(1, 4))
                op.set("wcut", r.range(0, static_cast<int64_t>(wire::fixedSize(static_cast<wire::Kind>(c))) + 2));
            else if (r.chance(1, 2))
            {
                // a valid but non-canonical image: one byte of the variable part flipped (pad bytes, terminators), surplus bytes
                if (r.chance(1, 2))
                    op.set("wpo", static_cast<int64_t>(wire::fixedSize(static_cast<wire::Kind>(c))) + r.range(0, 40)).set("wpx", 1 + static_cast<int64_t>(r.below(255)));
                if (r.chance(1, 2))
                    op.set("wextra", r.range(1, 9));
            }
        }
        if (r.chance(1, 6))
            op.set("same", 1);
        if (r.chance(1, 6))
            op.set("via", 1);  // the content arrives by copy assignment from a sibling object
        if (r.chance(1, 8))
            op.set("alias", static_cast<int64_t>(1 + r.below(2)));  // setData fed with the object's own getter views (world_build.cpp)
        if (r.chance(1, 8))
            op.set("near", 1).set("nearpos", r.chance(1, 4) ? -1 : static_cast<int64_t>(r.below(1200))).set("nearx", 1 + static_cast<int64_t>(r.below(255)));
        if (r.chance(1, 2) || prevN[oi] < 0)
            op.set("hdr", 1).set("hseed", static_cast<int64_t>(r.next() >> 1));
        int64_t hi;
        switch (c)
        {
            case wire::K_CAN:
            case wire::K_CANFD:
            case wire::K_LIN:
                hi = 255;
                break;
            case wire::K_ETH:
                hi = 65529;
                break;
            case wire::K_ANALOG:
                hi = 65519;
                break;
            default:
                hi = 600;
                break;
        }
        int64_t n;
        static const int64_t pow2ish[] = {15, 16, 17, 31, 32, 33, 63, 64, 65, 127, 128, 129, 254, 255, 256, 257, 511, 512, 513, 1023, 1024, 1025, 4095, 4096, 4097, 16383, 16384, 32767, 32768, 32769, 65519, 65529};
        if (r.chance(1, 8))
            n = std::min<int64_t>(hi, pow2ish[r.below(sizeof pow2ish / sizeof pow2ish[0])]);
        else if (c == wire::K_CAN || c == wire::K_CANFD)
            n = r.chance(1, 2) ? r.pick<int64_t>({0, 1, 2, 3, 4, 5, 6, 7, 8, 12, 16, 20, 24, 32, 48, 64}) : r.range(0, 255);
        else if (hi > 1000)
            n = r.chance(1, 8) ? r.logRange(0, hi) : (r.chance(1, 30) ? hi - r.range(0, 2) : r.range(0, 200));
        else
            n = r.chance(1, 6) ? r.range(0, hi) : r.range(0, 40);
        if (prevN[oi] >= 0)
        {
            if (policy == 1 && (o & 1))
                n = std::max<int64_t>(0, prevN[oi] - r.range(1, 9));
            else if (policy == 2 && (o & 1))
                n = std::min<int64_t>(hi, prevN[oi] + r.range(1, 9));
            else if (policy == 3)
                n = prevN[oi];
        }
        prevN[oi] = n;
        op.set("n", n);
        if (c == wire::K_CMSTAT)
        {
            static const char* keys[4] = {"s0", "s1", "s2", "s3"};
            for (int i = 0; i < 4; ++i)
                op.set(keys[i], r.chance(1, 5) ? 0 : (r.chance(1, 10) ? r.range(0, 1000) : (r.chance(1, 10) ? r.pick<int64_t>({126, 127, 128, 253, 254, 255, 256, 257, 510, 511, 512}) : r.range(0, 24))));
            op.set("v", r.chance(1, 3) ? 0 : (r.chance(1, 10) ? r.range(0, 2000) : (r.chance(1, 10) ? r.pick<int64_t>({127, 128, 255, 256, 257, 1023, 1024}) : r.range(0, 30))));
        }
        if (c == wire::K_IFSTAT)
            op.set("v", r.chance(1, 3) ? 0 : (r.chance(1, 10) ? r.range(0, 600) : (r.chance(1, 10) ? r.pick<int64_t>({127, 128, 255, 256, 257}) : r.range(0, 30))));
        op.set("max", r.pick<int64_t>({64, 100, 1500, 1500, 65559}));
        op.set("mode", static_cast<int64_t>(r.below(4)));
        if (r.chance(1, 3))
            op.set("wire", 0);
    }
    return g.finish();
}

// ---------------------------------------------------------------------------------------------- C15
Plan genTecmp(const std::string& prop, int tier, uint64_t batchSeed, uint64_t idx)
{
    Gen g(prop, tier, batchSeed, idx);
    Rng& r = g.rng;
    g.cfg().set("rx", 1);
    if (prop == "C15" && r.chance(1, 4))
        g.cfg().set("locale", 1);  // the process has a global C++ locale with digit grouping installed
    g.addNode(1, 3, 0, 0);
    const bool aliasing = prop == "C15" && r.chance(1, 4);
    if (aliasing)
        g.addNode(2, 2, 1, 1).set("lat", 0).set("gap", 0);  // a capture module on the same receiver
    const size_t n = 1 + r.below(tier ? 40 : 16);
    for (size_t k = 0; k < n; ++k)
    {
        if (k > 0 && r.chance(1, 5))
        {
            // the previous frame again with exactly ONE payload byte changed (caches keyed on too few bytes)
            Item prev = g.plan.items.back();
            prev.set("t", g.clock += 2);
            prev.set("p1o", r.chance(2, 3) ? static_cast<int64_t>(r.below(20)) : static_cast<int64_t>(r.below(200))).set("p1x", 1 + static_cast<int64_t>(r.below(255)));
            prev.erase("p1v");
            if (r.chance(1, 3))
                prev.set("p2o", r.chance(2, 3) ? static_cast<int64_t>(r.below(20)) : static_cast<int64_t>(r.below(200))).set("p2x", prev.get("p1x"));  // the SAME mask on a second byte
            g.plan.items.push_back(prev);
            continue;
        }
        addTecmpOp(g, 1, r.chance(1, 3));
        Item& op = g.plan.items.back();
        // arbitrary header fields
        op.set("dev", static_cast<int64_t>(r.below(256)));
        op.set("ifid", static_cast<int64_t>(r.chance(1, 4) ? 0xFFFFFFFFu : static_cast<uint32_t>(r.next())));
        op.set("dflags", static_cast<int64_t>(r.below(65536))).set("xflags", static_cast<int64_t>(r.below(65536)));
        if (r.chance(1, 4))
            op.set("rsv", static_cast<int64_t>(r.below(65536)));
        if (op.get("kind") == 0)
        {
            // unsupported kinds: message type over all values, data types next to the supported ones always included
            if (r.chance(1, 2))
                op.set("mtype", 3).set("dtype", r.pick<int64_t>({0, 1, 5, 6, 7, 8, 0x10, 0x20, 0x80, 0x0100, 0x0200, 0x0300, 0x0400, 0xFF00, 0x00FF, 0xFFFF,
                                                                  static_cast<int64_t>(r.below(65536))}));
            else
                op.set("mtype", r.pick<int64_t>({0, 4, 5, 0x0A, 0xFF, static_cast<int64_t>(r.below(256))}));
        }
        if (aliasing && r.chance(1, 3))
        {
            // Read as a capture-module header, a TECMP frame's counter sits in the device-id bytes and its message type in the
            // stream-id byte. A capture-module endpoint with exactly these ids has a reassembly pending on the same decoder
            // when the TECMP frame arrives (and another one, one off): it must not matter.
            const int64_t ctr = static_cast<int64_t>(r.below(65536));
            const int64_t tmt = op.get("mtype", 3);
            op.set("ctr", ctr);
            Item tecmpOp = op;
            g.plan.items.pop_back();
            for (int64_t d : {ctr, ctr ^ 1})
            {
                Item& raw = g.addOp(OP_RAW, 2, 1);
                raw.set("dev", d).set("stream", tmt).set("mtype", 1).set("ver", 1);
                Item m("m");
                m.set("kind", 0).set("ptype", 0x20).set("len", r.range(1, 40)).set("id", g.msgId()).set("seg", 1);
                raw.sub.push_back(std::move(m));
            }
            tecmpOp.set("t", g.clock += 2);
            g.plan.items.push_back(tecmpOp);
        }
    }
    return g.finish();
}

// ---------------------------------------------------------------------------------------------- C16
Plan genStatus(const std::string& prop, int tier, uint64_t batchSeed, uint64_t idx)
{
    Gen g(prop, tier, batchSeed, idx);
    Rng& r = g.rng;
    g.cfg().set("rx", 1).set("status", 1);
    const bool many = r.chance(1, 8);  // beyond the small alphabets: vector growth / reallocation inside the tracker
    const bool huge = many && r.chance(1, 4);  // past every plausible fixed capacity (16, 32, 64 devices / interfaces per device)
    const size_t nDev = huge ? 33 + r.below(48) : many ? 5 + r.below(20) : 2 + r.below(3);
    std::vector<int> devs;
    {
        std::set<int> s;
        while (s.size() < nDev)
            s.insert(many ? static_cast<int>(r.below(400)) : static_cast<int>(r.pick<int64_t>({1, 2, 3, 4, 0x43, 0xFF, 0x0100, 0xFFFF, 0})));
        devs.assign(s.begin(), s.end());
    }
    std::vector<int64_t> ifs;
    {
        std::set<int64_t> s;
        size_t ni = huge ? 17 + r.below(50) : many ? 4 + r.below(10) : r.below(4);
        while (s.size() < ni)
            s.insert(many ? static_cast<int64_t>(r.below(huge ? 300 : 64)) : r.pick<int64_t>({0, 1, 2, 0x10, 0x20, 0xFFFFFFFF, 0x01000000}));
        ifs.assign(s.begin(), s.end());
    }
    for (size_t i = 0; i < nDev; ++i)
        g.addNode(static_cast<int>(i + 1), 1, devs[i], static_cast<int>(r.below(3)));
    const int tecmpNode = static_cast<int>(nDev + 1);
    g.addNode(tecmpNode, 3, 0, 0);
    const bool forceReAdd = r.chance(1, 2);
    const bool enFault = r.chance(1, 2);
    // (one run in fifty: hundreds of updates and operator actions on one tracker)
    const size_t nOps = (!many && r.chance(1, 50)) ? 270 + r.below(850) : (many ? 30 : 4) + r.below(tier ? 80 : 40);
    int lastRemovedDev = -1;
    std::map<int64_t, Item> lastStatus;
    if (many)
    {
        // every device reports once first, so that the tracker really holds them all at the same time
        for (size_t di = 0; di + 1 < nDev || di < nDev - (r.chance(1, 2) ? 0 : 1); ++di)
        {
            Item& op = g.addOp(OP_ENC, static_cast<int>(di + 1), 1);
            op.set("min", 0).set("max", 1500).set("ver", 1).set("mode", 0);
            Item m("m");
            m.set("kind", wire::K_CMSTAT).set("len", static_cast<int64_t>(minLenOf(wire::K_CMSTAT)) + r.range(0, 20)).set("id", g.msgId()).set("ts", static_cast<int64_t>(di));
            op.sub.push_back(std::move(m));
        }
    }
    if (huge && !ifs.empty())
    {
        // ... and one of them reports every interface of the alphabet: 17..66 interfaces under one device
        const size_t di = r.below(nDev > 1 ? nDev - 1 : 1);
        for (size_t k = 0; k < ifs.size(); k += 4)
        {
            Item& op = g.addOp(OP_ENC, static_cast<int>(di + 1), 1);
            op.set("min", 0).set("max", 1500).set("ver", 1).set("mode", static_cast<int64_t>(r.below(4)));
            for (size_t q = k; q < ifs.size() && q < k + 4; ++q)
            {
                Item m("m");
                m.set("kind", wire::K_IFSTAT).set("len", static_cast<int64_t>(minLenOf(wire::K_IFSTAT)) + r.range(0, 12)).set("pifid", ifs[q]);
                m.set("id", g.msgId()).set("ts", static_cast<int64_t>(q)).set("ifid", static_cast<int64_t>(r.below(1000))).set("flags", 0);
                op.sub.push_back(std::move(m));
            }
        }
    }
    for (size_t o = 0; o < nOps; ++o)
    {
        const uint64_t sel = r.below(100);
        if (sel < 60)
        {
            size_t di = r.below(nDev);
            if (forceReAdd && lastRemovedDev >= 0 && r.chance(2, 3))
            {
                for (size_t q = 0; q < nDev; ++q)
                    if (devs[q] == lastRemovedDev)
                        di = q;
                lastRemovedDev = -1;
            }
            Item& op = g.addOp(OP_ENC, static_cast<int>(di + 1), 1);
            op.set("min", 0).set("max", r.pick<int64_t>({1500, 1500, 120, 64})).set("ver", 1).set("mode", static_cast<int64_t>(r.below(4)));
            size_t nm = 1 + r.below(4);
            for (size_t k = 0; k < nm; ++k)
            {
                Item m("m");
                const uint64_t ks = r.below(10);
                const int64_t extra = r.chance(1, 12) ? r.range(200, 1300) : r.range(0, 60);  // status payloads beyond 255 bytes too
                if (ks < 4)
                    m.set("kind", wire::K_CMSTAT).set("len", static_cast<int64_t>(minLenOf(wire::K_CMSTAT)) + extra);
                else if (ks < 8 && !ifs.empty())
                    m.set("kind", wire::K_IFSTAT).set("len", static_cast<int64_t>(minLenOf(wire::K_IFSTAT)) + extra / 2).set("pifid", ifs[r.below(ifs.size())]);
                else if (ks < 9)
                    m.set("kind", wire::K_CAN).set("len", 16 + r.range(0, 8));
                else if (r.chance(1, 2))
                    m.set("kind", 0).set("mtype", 3).set("ptype", r.pick<int64_t>({3, 4, 0xFF})).set("len", r.range(1, 40));
                else  // control / vendor-defined / unknown message types re-use the small payload type numbers
                    m.set("kind", 0).set("mtype", r.pick<int64_t>({2, 2, 0xFF, 0xFF, 4, 0x7F})).set("ptype", r.pick<int64_t>({1, 2, 2, 3})).set("len", r.range(1, 80));
                m.set("id", g.msgId()).set("ts", static_cast<int64_t>(g.pickTs())).set("ifid", static_cast<int64_t>(r.below(1000))).set("flags", g.pickFlags());
                m.set("build", static_cast<int64_t>(r.below(3)));
                // one update in five is the device's previous status message again with exactly ONE field changed
                {
                    const int64_t slot = static_cast<int64_t>(di) * 1000003 + m.get("kind") * 101 + m.get("pifid", -1);
                    auto it = lastStatus.find(slot);
                    if (it != lastStatus.end() && (m.get("kind") == wire::K_CMSTAT || m.get("kind") == wire::K_IFSTAT) && r.chance(1, 5))
                    {
                        m = it->second;
                        m.erase("tailx");
                        switch (r.below(5))
                        {
                            case 3:
                                // one of the LAST payload bytes differs (vendor data, a string's tail)
                                m.set("tailx", 1 + static_cast<int64_t>(r.below(255))).set("tailo", static_cast<int64_t>(r.below(7)));
                                break;
                            case 0:
                                m.set("ts", m.get("ts") + 1);
                                break;
                            case 1:
                                m.set("ifid", m.get("ifid") ^ (1LL << r.below(16)));  // the vendor id of a status message
                                break;
                            case 2:
                                m.set("flags", m.get("flags") ^ 0x01);
                                break;
                            default:
                                break;  // byte-identical repetition
                        }
                    }
                    if (m.get("kind") == wire::K_CMSTAT || m.get("kind") == wire::K_IFSTAT)
                        lastStatus[slot] = m;
                }
                op.sub.push_back(std::move(m));
            }
            if (enFault && r.chance(1, 4))
            {
                switch (r.below(4))
                {
                    case 0:
                        addFault(op, F_DROP, static_cast<int64_t>(r.below(3)));
                        break;
                    case 1:
                        addFault(op, F_DUP, static_cast<int64_t>(r.below(3)), r.pick<int64_t>({0, 50, 2000}));
                        break;
                    case 2:
                        addFault(op, F_DELAY, static_cast<int64_t>(r.below(3)), r.range(1, 3000));
                        break;
                    default:
                        for (int fr = 0; fr < 4; ++fr)
                            addFault(op, F_PARTITION, fr);
                        break;
                }
            }
        }
        else if (sel < 66)
        {
            // Status::update with a packet assembled through the API instead of decoded from the wire
            Item& op = g.addOp(OP_STATUPD, -1, 0);
            const size_t di = r.below(nDev);
            const bool isIf = !ifs.empty() && r.chance(2, 3);
            op.set("dev", devs[di]).set("stream", static_cast<int64_t>(r.below(3))).set("id", g.msgId()).set("ts", static_cast<int64_t>(g.pickTs()));
            op.set("ifid", static_cast<int64_t>(r.below(1000))).set("flags", g.pickFlags()).set("build", r.chance(2, 3) ? 2 : 0);
            if (r.chance(1, 2))
                op.set("seq", r.chance(1, 2) ? static_cast<int64_t>(r.below(65536)) : r.pick<int64_t>({1, 255, 256, 0x0300, 0x7FFF, 0x8000, 0xFFFF}));  // an API-built packet has whatever counter its maker gave it
            if (isIf)
                op.set("kind", wire::K_IFSTAT).set("len", static_cast<int64_t>(minLenOf(wire::K_IFSTAT)) + r.range(0, 30)).set("pifid", ifs[r.below(ifs.size())]);
            else if (r.chance(3, 4))
                op.set("kind", wire::K_CMSTAT).set("len", static_cast<int64_t>(minLenOf(wire::K_CMSTAT)) + r.range(0, 60));
            else
                op.set("kind", 0).set("mtype", r.pick<int64_t>({3, 2, 0xFF, 1})).set("ptype", r.pick<int64_t>({3, 4, 1, 2})).set("len", r.range(1, 60));
            if (r.chance(1, 3))
                op.set("p1o", r.chance(1, 2) ? 25 : static_cast<int64_t>(r.below(40))).set("p1v", static_cast<int64_t>(r.below(256)));  // 4+25 = the interface status byte
            if (r.chance(1, 3))
            {
                // ... followed by the same packet again with exactly ONE header field changed (or none): "equal to what I hold" shortcuts
                Item twin = g.plan.items.back();
                twin.set("t", twin.get("t") + 1);
                switch (r.below(7))
                {
                    case 5:
                        twin.set("junkx", static_cast<int64_t>(1 + r.below(1000000)));  // only the id field that is not on the wire for this type differs
                        break;
                    case 0:
                        twin.set("stream", (twin.get("stream", 0) + (r.chance(1, 2) ? 1 : 255)) & 0xFF);
                        break;
                    case 1:
                        twin.set("seq", (twin.get("seq", 0) + r.pick<int64_t>({1, 255, 256, 0xFF00})) & 0xFFFF);
                        break;
                    case 2:
                        twin.set("ts", twin.get("ts") + 1);
                        break;
                    case 3:
                        twin.set("ifid", twin.get("ifid") ^ (1LL << r.below(16)));
                        break;
                    case 4:
                        twin.set("flags", twin.get("flags") ^ 0x01);
                        break;
                    default:
                        break;
                }
                g.clock += 1;
                g.plan.items.push_back(twin);
            }
        }
        else if (sel < 70)
        {
            // TECMP status of a device with a small id
            Item& op = g.addOp(OP_TECMP, tecmpNode, 1);
            const bool cm = r.chance(1, 2);
            op.set("kind", cm ? 3 : 4).set("mtype", cm ? 1 : 2).set("dtype", 0).set("n", cm ? 0 : static_cast<int64_t>(r.below(4)));
            op.set("id", g.msgId()).set("dev", static_cast<int64_t>(devs[r.below(nDev)] & 0xFF)).set("ts", static_cast<int64_t>(g.pickTs()));
        }
        else if (sel < 82)
        {
            Item& op = g.addOp(OP_STATUS, -1, 0);
            int d = r.chance(5, 6) ? devs[r.below(nDev)] : static_cast<int>(r.below(65536));
            op.set("what", 1).set("dev", d);
            lastRemovedDev = d;
        }
        else if (sel < 94)
        {
            Item& op = g.addOp(OP_STATUS, -1, 0);
            op.set("what", 2).set("dev", r.chance(5, 6) ? devs[r.below(nDev)] : static_cast<int>(r.below(65536)));
            op.set("ifid", !ifs.empty() && r.chance(5, 6) ? ifs[r.below(ifs.size())] : static_cast<int64_t>(r.below(100)));
        }
        else
        {
            Item& op = g.addOp(OP_STATUS, -1, 0);
            op.set("what", 3);
        }
    }
    return g.finish();
}

}  // namespace sim
