#!/bin/bash
# build.sh <variant>|all  -- builds /verif/.build/<variant>/simcheck from /repo's CURRENT working tree.
# Library sources are compiled directly (not through the repo's CMake) with -DASAM_CMP_LIB_VERIF.
# Objects are keyed by a content hash of their inputs, so an edited tree is always rebuilt and an
# unchanged one never; flock lets parallel checks share one build.
set -e
cd "$(dirname "$0")"
VERIF=$(pwd)
REPO=${VERIF_REPO:-/repo}
OUT=${VERIF_BUILD:-$VERIF/.build}
mkdir -p "$OUT"

variant_flags() {
  case "$1" in
    asan)
      CXX=clang++
      SIMFLAGS="-O1 -g -fno-omit-frame-pointer -fsanitize=address -fsanitize=bounds,null,shift,signed-integer-overflow,integer-divide-by-zero,unreachable,return,bool,enum -fno-sanitize-recover=all"
      LIBFLAGS="$SIMFLAGS -fsanitize-coverage=trace-pc-guard,trace-cmp"   # edges of library code are counted (edgecount.cpp): C02 promptness; comparison operands: derived frames
      LDFLAGS="-fsanitize=address -fsanitize=bounds,null,shift,signed-integer-overflow,integer-divide-by-zero,unreachable,return,bool,enum"
      DEFS="-DSIM_VARIANT_ASAN"
      ;;
    plain)
      CXX=g++
      LIBFLAGS="-O2 -g -gdwarf-4 -fno-omit-frame-pointer"
      SIMFLAGS="$LIBFLAGS"
      LDFLAGS=""
      DEFS="-DSIM_VARIANT_PLAIN"
      ;;
    sched)
      CXX=clang++
      LIBFLAGS="-O0 -g -fsanitize-coverage=trace-pc-guard,trace-loads,trace-stores -fno-builtin -fsanitize=thread -mllvm -tsan-instrument-memory-accesses=0 -mllvm -tsan-instrument-func-entry-exit=0 -mllvm -tsan-instrument-memintrinsics=0"   # TSan: atomics only (their memory order reaches sched_rt.cpp); no TSan runtime is linked
      SIMFLAGS="-O1 -g"
      LDFLAGS="-pthread -Wl,--wrap=memcpy -Wl,--wrap=memmove -Wl,--wrap=memset -Wl,--wrap=__cxa_guard_acquire -Wl,--wrap=__cxa_guard_release -Wl,--wrap=__cxa_guard_abort -Wl,--wrap=pthread_mutex_lock -Wl,--wrap=pthread_mutex_trylock -Wl,--wrap=pthread_mutex_unlock -Wl,--wrap=pthread_once"
      DEFS="-DSIM_VARIANT_SCHED"
      ;;
    tsan)
      CXX=clang++
      LIBFLAGS="-O1 -g -fsanitize=thread"
      SIMFLAGS="$LIBFLAGS"
      LDFLAGS="-fsanitize=thread -pthread"
      DEFS="-DSIM_VARIANT_TSAN"
      ;;
    *) echo "unknown variant $1" >&2; exit 2;;
  esac
}

hash_files() { cat "$@" 2>/dev/null | sha256sum | cut -c1-16; }

build_variant() {
  local V=$1
  variant_flags "$V"
  local D=$OUT/$V
  mkdir -p "$D/lib" "$D/sim"
  exec 9>"$D/.lock"
  flock 9
  local COMMON="-std=c++17 -DASAM_CMP_LIB_VERIF $DEFS -I$REPO/include -pthread"
  local LIBKEY SIMKEY
  LIBKEY=$( (echo "$CXX $LIBFLAGS $COMMON"; cat "$REPO"/src/*.cpp "$REPO"/include/asam_cmp/*.h) | sha256sum | cut -c1-16)
  SIMKEY=$( (echo "$CXX $SIMFLAGS $COMMON $LIBKEY"; cat "$VERIF"/sim/*.cpp "$VERIF"/sim/*.h) | sha256sum | cut -c1-16)
  local relink=0
  if [ "$(cat "$D/lib/.key" 2>/dev/null)" != "$LIBKEY" ]; then
    rm -f "$D"/lib/*.o
    ls "$REPO"/src/*.cpp | xargs -P 16 -I{} sh -c "$CXX $LIBFLAGS $COMMON -w -c {} -o $D/lib/\$(basename {} .cpp).o"
    echo "$LIBKEY" > "$D/lib/.key"
    relink=1
  fi
  # dictionary of the integer literals in the library's sources (gen_common.h, literalPass): a value the code treats
  # specially is one of them, whatever tree is being checked
  if [ ! -s "$D/lib/literals.txt" ] || [ "$D/lib/.key" -nt "$D/lib/literals.txt" ]; then
    python3 - "$REPO" "$D/lib/litseq.txt" > "$D/lib/literals.tmp" <<'PY'
import glob, re, sys
vals = set()
for f in sorted(glob.glob(sys.argv[1] + "/src/*.cpp") + glob.glob(sys.argv[1] + "/include/asam_cmp/*.h")):
    txt = open(f, errors="replace").read()
    txt = re.sub(r"//[^\n]*", " ", txt)
    for m in re.finditer(r"(?<![\w.])(0[xX][0-9a-fA-F]+|\d+)(?:[uUlL]*)(?![\w.])", txt):
        try:
            v = int(m.group(1), 0) if m.group(1).lower().startswith("0x") else int(m.group(1).lstrip("0") or "0")
        except ValueError:
            continue
        if 8 < v < 2**64:
            vals.add(v)
for v in sorted(vals)[:4000]:
    print(v)
# byte sequences: the hexadecimal literals of one source line in order (byte-wise, wide ones big-endian), 2..16 bytes
seqs = []
for f in sorted(glob.glob(sys.argv[1] + "/src/*.cpp") + glob.glob(sys.argv[1] + "/include/asam_cmp/*.h")):
    for line in open(f, errors="replace"):
        line = line.split("//")[0]
        b = []
        for m in re.finditer(r"(?<![\w.])0[xX]([0-9a-fA-F]+)(?:[uUlL]*)(?![\w.])|'\\\\x([0-9a-fA-F]{2})'", line):
            h = m.group(1) or m.group(2)
            if len(h) % 2:
                h = "0" + h
            b += [h[i:i + 2] for i in range(0, len(h), 2)]
        if 2 <= len(b) <= 16:
            q = "".join(b).lower()
            if q not in seqs:
                seqs.append(q)
open(sys.argv[2], "w").write("\n".join(seqs[:600]) + ("\n" if seqs else ""))
PY
    mv "$D/lib/literals.tmp" "$D/lib/literals.txt"
  fi
  if [ "$(cat "$D/sim/.key" 2>/dev/null)" != "$SIMKEY" ]; then
    rm -f "$D"/sim/*.o
    local SRCS
    SRCS=$(ls "$VERIF"/sim/*.cpp)
    if [ "$V" != "sched" ]; then SRCS=$(echo "$SRCS" | grep -v sched_); fi
    echo "$SRCS" | xargs -P 16 -I{} sh -c "$CXX $SIMFLAGS $COMMON -Wall -Wextra -Wno-unused-parameter -c {} -o $D/sim/\$(basename {} .cpp).o"
    echo "$SIMKEY" > "$D/sim/.key"
    relink=1
  fi
  if [ $relink = 1 ] || [ ! -x "$D/simcheck" ] || { [ "$V" = "plain" ] && [ ! -x "$D/simcheck-vg" ]; }; then
    $CXX $LDFLAGS -o "$D/simcheck.tmp" "$D"/sim/*.o "$D"/lib/*.o -pthread
    mv "$D/simcheck.tmp" "$D/simcheck"
    if [ "$V" = "plain" ]; then
      # the valgrind binary: same objects without the allocator replacement
      $CXX $LDFLAGS -o "$D/simcheck-vg.tmp" $(ls "$D"/sim/*.o | grep -v memfill.o) "$D"/lib/*.o -pthread
      mv "$D/simcheck-vg.tmp" "$D/simcheck-vg"
    fi
  fi
  flock -u 9
}

if [ "$1" = "all" ] || [ -z "$1" ]; then
  for v in asan plain; do build_variant $v; done
  [ -f "$VERIF/sim/sched_rt.cpp" ] && build_variant sched || true
else
  for v in "$@"; do build_variant "$v"; done
fi
