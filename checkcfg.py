"""Per-property configuration of ./check (budgets, build variant, evidence texts)."""

COMPONENTS = {
    "real": [
        "ASAM::CMP::Encoder", "ASAM::CMP::Decoder (incl. TECMP::Decoder / TECMP::Converter behind it)", "ASAM::CMP::Packet",
        "ASAM::CMP::Payload and the typed payload classes (CAN, CAN-FD, LIN, Ethernet, analog, capture-module status, interface status)",
        "ASAM::CMP::Status / DeviceStatus / InterfaceStatus",
    ],
    "stub": [
        "SimNet: discrete-event delivery queue ordered by (simulated us, sequence number), per-link latency, fault operators",
        "RawNode: third-party CMP capture module writing frames with wire.h",
        "TecmpNode: TECMP device (the library has no TECMP encoder)",
        "NoiseNode: garbage, undersized buffers, stale replays",
        "reference models: RefDecoder, RefTecmp, RefStatus, FrameWalker, RefPacker, RefCounter (models.h, never include a library header)",
    ],
}

ASAN = "clang 14 AddressSanitizer + UBSan (bounds,null,shift,signed-integer-overflow,integer-divide-by-zero,unreachable,return,bool,enum), -fno-sanitize-recover; a report, signal, uncaught exception or 30 s watchdog expiry is a violation (crash.*)"

COMMON_ASSUMPTIONS = [
    "seeded sampling: a clean batch is evidence, not proof",
    "wire.h (independent layout tables for ASAM CMP 1.0 / TECMP) is part of the trusted base",
    "execution is a pure function of the plan; the wall clock only decides when a batch stops",
]


def P(level, quick_s, thorough_s, rule, assumptions=None, variant="asan", sanitizers=ASAN, expect_probes=None, phases=None):
    if phases is None and variant == "asan":
        # second compiler: a tenth of the budget runs the first run indexes on the native g++ -O2 build
        # of the same sources - what production is compiled like. No sanitizer there; the oracles, signals and the
        # watchdog decide. Compiler-dependent behaviour (argument evaluation order, optimisations that exploit undefined
        # behaviour) is otherwise only ever seen through clang -O1.
        phases = [{"tag": "asan", "bin": "simcheck", "wrap": [], "share": 0.9, "shrink": 400},
                  {"tag": "gcc-O2", "variant": "plain", "bin": "simcheck", "wrap": [], "share": 0.1, "shrink": 200}]
        sanitizers = sanitizers + "; phase gcc-O2 (10 % of the budget): the same run indexes on a native g++ -O2 build without sanitizers"
    return {
        "phases": phases,
        "level": level,
        "quick_s": quick_s,
        "thorough_s": thorough_s,
        "rule": rule,
        "assumptions": COMMON_ASSUMPTIONS + (assumptions or []),
        "variant": variant,
        "sanitizers": sanitizers,
        "expect_probes": expect_probes or [],
    }


PROPS = {
    "C01": P("exploration", 20, 480,
             "plans = 1-3 capture modules (real Encoder, long-lived) each with 1-6 encode calls of 1-12 logical messages (all payload kinds, boundary-biased lengths 1..65535, "
             "DataContext classes), frames delivered loss-free and per-link FIFO with seeded cross-link interleaving to one real Decoder; "
             "distinct = distinct plan hash; non-trivial = the run delivered at least one reassembled or aggregated message",
             expect_probes=["reassembled", "aggregated-frame", "packet-exactly-fills-frame", "one-byte-too-long-for-empty-frame", "three-or-more-segments",
                            "message-type-change-in-batch", "nth-call-needs-segmentation"]),
    "C02": P("fault_enumeration", 20, 600,
             "histories of 3-120 (soak: thousands) buffers on one Decoder: well-formed CMP frames (stub peer and real encoder), TECMP frames of all kinds, noise, 0..27-byte buffers, nullptr/0, "
             "each possibly hit by truncate / set-field(boundary values) / flip / pad / splice / stale replay / dup / delay, with receiver restarts; every call is checked (buffer exact-size on the heap and freed "
             "after the call, unchanged, <= n/12 packets, non-null, payload object present, basic-block edges of library code executed by the call <= 4000 + 60*n) and every returned packet is re-digested after the free, after later decodes and after the decoder is destroyed; "
             "distinct = plan hash; non-trivial = at least one faulted, TECMP or undersized buffer was delivered",
             expect_probes=["faulted-frame-delivered", "tecmp-frame", "undersized-buffer", "kept-packets", "truncate", "set-field", "flip", "splice", "receiver-restart"]),
    "C03": P("fault_enumeration", 20, 600,
             "four plan modes: (0) one base payload x every truncation length 0..fixed+8 x validator of its own or another typed class, (1) every boundary value of every inner length field, "
             "(2) random class/content/cut/poke probes incl. message-level isValidPacket => Packet construction, (3) the same corruptions in transit through Decoder::decode; "
             "for every accepted buffer an exact-size heap copy is turned into the typed object, the buffer is freed, and every const accessor is called with every (pointer,length) view checked against "
             "getRawPayload()/getLength(); distinct = plan hash; non-trivial = at least one buffer was accepted or one typed valid packet observed",
             expect_probes=["validator-accepted", "validator-rejected", "accepted-near-header-size", "message-accepted", "typed-valid-packet", "truncate", "set-field"]),
    "C04": P("exploration", 20, 480,
             "stub peer frames: CMP header (version 1..255, any device/stream/message type) + 0..8 unsegmented messages of every payload kind with random header fields, consistent or deliberately "
             "inconsistent inner lengths / bus-error flags, optionally cut short at any offset or zero-padded, delivered to a Decoder with a seeded history (open reassemblies, other endpoints, garbage); "
             "oracle = RefDecoder (wire.h) field by field + must-valid / must-invalid classification; distinct = plan hash; non-trivial = at least one frame delivered",
             expect_probes=["aggregated-frame", "truncate", "pad-zero", "aborted-open-message"]),
    "C05": P("exploration", 20, 480,
             "1-4 endpoints (sharing device or stream ids) each sending 1-5 well-formed segmented messages (2..40 segments quick / ..300 thorough, sizes 0/1/small/frame-filling/unequal, first counter "
             "uniform or forced to 65530..65535, trailing zero/garbage bytes after segments, later segments with different header fields) plus unsegmented traffic and real-Encoder senders; "
             "SimNet interleaves the per-link FIFO streams by seeded latencies/gaps; oracles = RefDecoder strict + per-frame end-to-end expectation from the sender; "
             "distinct = plan hash; non-trivial = at least one message was reassembled; interleavings = hash of the delivered endpoint sequence",
             expect_probes=["reassembled", "counter-wrap-inside-message", "zero-length-segment", "trailing-bytes-after-segment", "three-or-more-segments"]),
    "C06": P("fault_enumeration", 20, 600,
             "1-3 endpoints (real Encoder and stub peers), streams of 3-30 operations mixing aggregated frames and segmented messages; faults drop / dup(0,gap,2gap+1) / swap / delay / partition / "
             "stale replay on any frame, corrupt-version / corrupt-type on segment frames (at most one per operation); quick: 0-12 seeded faults per run; thorough additionally sweeps every single fault "
             "kind at every one of 24 frame positions and every pair at distance 1..7 over seeded base streams; oracle over the recorded history: safety (every delivered packet equals a sent message) and "
             "bounded recovery (a message whose frames arrive complete, in order, uninterrupted is delivered at its last frame); distinct = plan hash; non-trivial = at least one fault applied and one frame delivered",
             expect_probes=["recovery-demanded", "drop", "dup", "delay", "stale-replay", "corrupt-version", "corrupt-type", "partition", "64-or-more-endpoints-mid-message-at-once"]),
    "C07": P("exploration", 20, 480,
             "histories of encode calls on long-lived Encoders: batches of 0..40 messages, boundary-biased payload lengths (fit/no-fit of an empty frame and of the room left in the current frame, per the "
             "reference packer), DataContext over 25..65559 x 0..max incl. min=max, contexts changing between calls, all three encode overloads + std::list iterators; oracle = FrameWalker over every frame; "
             "distinct = plan hash; non-trivial = the run contained a segmented, an aggregated or an empty batch",
             expect_probes=["empty-batch", "packet-exactly-fills-frame", "one-byte-too-long-for-empty-frame", "min-equals-max", "message-type-change-in-batch", "three-or-more-segments"]),
    "C08": P("exploration", 20, 480,
             "same workload family as C07 without empty batches; oracle = protocol rule checks (segment only if needed, segments alone in consecutive frames flagged first/intermediary/last and filling the frame, "
             "frame header type) + structural equality of the frame sequence with the reference greedy packer; distinct = plan hash; non-trivial = segmented or aggregated batch present",
             expect_probes=["packing-compared", "packet-exactly-fills-frame", "one-byte-too-long-for-empty-frame", "message-type-change-in-batch"]),
    "C09": P("exploration", 25, 480,
             "histories of 3-40 events {setDeviceId, setStreamId, restart, encode(batch, context)} on one Encoder (20 % never configured), 10 % (quick) / 30 % (thorough) wrap runs that emit > 65536 frames "
             "without a reset; oracle = bytes 0-7 of every frame via wire.h against RefCounter and the configured identity, getSequenceCounter()/getDeviceId()/getStreamId() after every call; "
             "distinct = plan hash; non-trivial = a reconfiguration, restart, counter wrap or n-th call occurred",
             expect_probes=["counter-wrapped", "cm-reconfigure", "cm-restart", "nth-call-on-same-encoder"]),
    "C10": P("exploration", 20, 480,
             "histories of 2-9 encode calls with arbitrary batches / message types / contexts (segmenting ones, ones ending on a segment, empty ones) on one Encoder; every call is compared with a brand-new "
             "real Encoder with the same ids given the same batch: same frame count, byte-identical except bytes 6-7, constant counter offset; distinct = plan hash; non-trivial = a call after a non-empty history was compared",
             expect_probes=["twin-compared-after-history", "nth-call-needs-segmentation", "empty-batch"]),
    "C13": P("exploration", 20, 480,
             "1-3 long-lived payload objects per run (7 typed classes), 2-30 setData steps with re-use policies fresh / longer-then-shorter / shorter-then-longer / same / random, header fields set from a seed "
             "before; oracle = typed getters, header bytes unchanged except length/DLC, raw bytes == wire.h rendering, raw bytes == fresh object with same content, own isValidPayload, "
             "encode -> wire -> decode accepted with same bytes and getters; distinct = plan hash; non-trivial = a re-use with different length, odd stream-id count, even-length string or FD DLC code occurred",
             expect_probes=["shorter-after-longer", "longer-after-shorter", "odd-stream-id-count", "even-length-string", "fd-dlc-coded-length", "built-payload-segmented"]),
    "C15": P("exploration", 20, 480,
             "1-40 TECMP frames per run from the stub TECMP device: arbitrary header fields, message type over 0..255, data types incl. all neighbours of the supported ones, CAN/CAN-FD length 0..64, LIN 0..8, "
             "bus status 0..40 entries, capture-module status 36+n bytes; a third of the frames with an inconsistent inner length / payload length / cut / trailing bytes; routed through Decoder::decode and "
             "compared with TECMP::Decoder::Decode; oracle = RefTecmp (wire.h); distinct = plan hash; non-trivial = at least one frame had a specified outcome (converted or rejected)",
             expect_probes=["tecmp-converted", "tecmp-rejected", "tecmp-unspecified"]),
    "C16": P("exploration", 20, 480,
             "2-4 devices x 0-3 interface ids; real Encoders send capture-module status, interface status and data packets, a stub sends TECMP status; every packet the Decoder returns goes to Status::update; "
             "operator events removeDeviceById / removeInterfaceById / clear with known and unknown ids; network faults drop / dup / delay / partition; after EVERY operation the whole tracker is compared "
             "with RefStatus (counts, id->index->entry bijection, stored packets field by field); distinct = plan hash; non-trivial = several devices tracked or a known id removed",
             expect_probes=["multiple-devices-tracked", "remove-known-device", "remove-known-interface", "status-clear", "device-with-multiple-interfaces"]),
    "C17": P("exploration", 20, 480,
             "hostile histories of 3-120 operations (soak: thousands) over 2-6 endpoints from tiny id alphabets: well-formed traffic, orphan and inconsistent segments, TECMP, noise, stale replays, all "
             "transit faults, receiver restarts, then a fault-free tail in which every endpoint's last frame is unsegmented; after EVERY decode the guarded hook Decoder::verifPending() is compared with "
             "RefDecoder's must-be-open set and byte bound; distinct = plan hash; non-trivial = some reassembly was pending at some point; states = hash of the model's pending table",
             expect_probes=["pending-nonempty", "pending-multi-endpoint", "orphan-segment", "aborted-open-message", "first-segment-while-open", "quiescent-empty"]),
    "C18": P("exploration", 20, 480,
             "the same hostile histories as C17 (without tail); a shared Decoder sees everything, one fresh real Decoder per endpoint sees only the CMP-routed frames naming that endpoint; for every such frame "
             "both outputs must be equal (count, every getter, payload bytes); distinct = plan hash; non-trivial = at least two endpoints occurred; interleavings = hash of the delivered endpoint sequence",
             expect_probes=["multi-endpoint-history", "tecmp-frame", "undersized-buffer"]),
    "C20": P("exploration", 40, 600,
             "workloads of the C01, C05, C13, C15, C16, C06, C04 and C10 generators (every payload kind, padded and unpadded frames, control/status/vendor messages whose header leaves id bytes unused, "
             "reassembly, TECMP conversion, builders, status tracker); phase A (native): each plan executed three times with fresh-heap / released-heap / stack fill patterns (0xA5,0x5A), (0x3C,0xC3), (0,0) "
             "via replaced operator new/delete and a 48 KiB stack scribble before every API call, all outputs (every frame byte, every getter and payload byte of every packet, raw bytes of every built payload) "
             "must hash identically; phase B (valgrind memcheck on the same objects without the allocator layer): VALGRIND_CHECK_MEM_IS_DEFINED on every output buffer and zero memcheck errors per run; "
             "distinct = plan hash; non-trivial = the run produced outputs under the differential or under valgrind",
             assumptions=["stack definedness is only as good as valgrind's tracking; MSan is not usable with the uninstrumented libstdc++"],
             variant="plain", sanitizers="phase A: none (native g++ -O2 with hostile allocator); phase B: valgrind 3.19 memcheck --undef-value-errors=yes",
             expect_probes=["fill-differential", "valgrind-run"],
             phases=[{"tag": "fill", "bin": "simcheck", "wrap": [], "share": 0.5, "shrink": 400},
                     {"tag": "vg", "bin": "simcheck-vg", "wrap": ["valgrind", "-q", "--error-exitcode=0", "--undef-value-errors=yes", "--num-callers=12"], "share": 0.5, "shrink": 60}]),
    "C19": P("exploration", 40, 600,
             "each run = 2-4 real threads, each driving its own Encoder / Decoder / Status / builders (and the static TECMP decoder) on a workload cut from the C01 C04 C05 C06 C10 C13 C15 C16 C17 C18 "
             "generators (a third of the runs: the same workload on all threads); library compiled -O0 with -fsanitize-coverage=trace-pc-guard,trace-loads,trace-stores, memcpy/memmove/memset and "
             "__cxa_guard_* wrapped; a baton lets exactly one thread run, every callback is a yield point, the seeded scheduler switches with geometric run lengths (mean 1..10^4 yield points) or at "
             "1-6 uniformly placed change points; oracles: per-thread output digest == digest of the same workload run alone, and a vector-clock happens-before detector over all recorded accesses "
             "(8-byte granules, heap ranges forgotten on release, static-init guards as edges); distinct = plan hash (workloads + scheduler seed); non-trivial = a thread was preempted inside library code; "
             "interleavings = hash of the switch sequence (yield index, next thread)",
             assumptions=["accesses inside uninstrumented libstdc++ / libc are invisible to the detector", "the scheduler draws its switch decisions from a PRNG seeded by the plan (schedseed) while the run "
                          "proceeds; replay is exact because the yield-point sequence is a function of plan and code"],
             variant="sched", sanitizers="none (own scheduler + happens-before detector; TSan sees nothing under a serialising scheduler)",
             expect_probes=["scheduled-run", "preempted-inside-library", "ten-or-more-switches", "instances-interleaved-on-one-thread", "neighbour-instance-frames"],
             phases=[{"tag": "sched", "bin": "simcheck", "wrap": [], "share": 0.7, "shrink": 60},
                     {"tag": "instances", "variant": "asan", "bin": "simcheck", "wrap": [], "share": 0.15, "shrink": 60},
                     {"tag": "tsan-free-running", "variant": "tsan", "bin": "simcheck", "wrap": [], "share": 0.15, "advisory": True, "tiers": ["thorough"], "workers": 4}]),
}

# ---- additions that apply across families (DESIGN.md section 12: object lifecycle events, relay, aborted calls, environment)
_LIFE = (" | object lifecycle events: between two operations the decoder / encoder / tracker under test is copy- or move-constructed, "
         "assigned over a used object, swapped, self-assigned or forked into a shadow that receives the same calls (op k=13; rule life.fork-diverged); "
         "packets are handed on as copied / moved / assigned-over-a-near-twin objects, re-used long-lived objects, or with payloads completed "
         "through the mutable getPayload() reference; the models do not change (faults_injected.object-copied-or-moved)")
for _p in ("C01", "C02", "C03", "C04", "C05", "C06", "C07", "C08", "C09", "C10", "C16", "C17", "C18"):
    PROPS[_p]["rule"] += _LIFE
PROPS["C01"]["rule"] += (" | relay: valid packets returned by the receiver (whole or reassembled) are encoded again by a second real Encoder with another frame "
                         "size and decoded by a second real Decoder; they must come back as the same packets (relay.*; probe relayed-packets)")
PROPS["C10"]["rule"] += (" | fault: the batch first goes into an encode(begin,end) call aborted by an exception out of the caller's iterator "
                         "(faults_injected.encode-call-aborted-by-exception), then into the compared call")
PROPS["C13"]["rule"] += " | one step in six: the content arrives by copy assignment from a sibling object given it (probe content-by-assignment)"
PROPS["C15"]["rule"] += " | one run in four decodes under a global C++ locale with digit grouping and a decimal comma (faults_injected.hostile-global-locale)"
PROPS["C19"]["rule"] += (" | cloned start (a third of the shared-workload runs): the workload is begun on the main thread, interrupted between two deliveries, and the "
                         "threads continue on COPIES of one prototype's decoder / encoders / tracker (probe cloned-start)")
for _p in ("C02", "C04", "C15", "C17", "C18"):
    PROPS[_p]["rule"] += (" | a third of the runs: frames DERIVED from the comparison operands of the decode calls (library compiled with trace-cmp; where the observed operand of a "
                          "comparison with a constant is found in the delivered bytes, a copy of the frame spelling the constant is queued; a compared buffer size yields the frame "
                          "resized to it; 3 generations, 48 per run; faults_injected.frame-derived-from-comparison-operands)")
for _p in ("C01", "C02", "C04", "C05", "C07", "C08", "C09", "C10", "C13", "C15", "C16", "C17", "C18"):
    PROPS[_p]["rule"] += (" | one run in five: 1-3 plan fields set to an integer literal found in the sources of the tree under test (build.sh -> lib/literals.txt; "
                          "faults_injected.plan-field-set-to-a-source-literal); one delivery in four at an unaligned buffer address")
PROPS["C19"]["rule"] += (" | second engine (phase instances, asan variant): the same workloads interleaved operation by operation on ONE thread in a seeded order, with neighbour "
                         "instances decoding up to ~140000 frames at one seeded point (cfg nbflood); every workload's digest must equal the same workload run alone (inst.diverged); "
                         "half of the scheduled runs share receive buffers of equal content between the threads (probe receive-buffer-shared-between-threads)")
PROPS["C06"]["rule"] += " | one run in twelve: a crowd of 64-150 endpoints all mid-message when the faults hit (probe 64-or-more-endpoints-mid-message-at-once)"
PROPS["C20"]["rule"] += (" | C20-only inputs: moved-from packets re-used after setPayload, Status updates with generic interface-status payloads shorter than "
                         "the class header; the tracker's final content is an output")
