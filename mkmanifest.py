#!/usr/bin/env python3
"""Writes MANIFEST.json from checkcfg.py (single source for per-property texts)."""
import json
import os
import subprocess
import sys

VERIF = os.path.dirname(os.path.abspath(__file__))
sys.path.insert(0, VERIF)
from checkcfg import PROPS  # noqa: E402

LEVEL_TEXT = {
    "C01": ("Seeded simulation of long-lived real encoders, a loss-free FIFO network with seeded cross-endpoint interleaving and one long-lived real decoder; strict equality of the delivered packet stream "
            "with the logical messages, under ASan/UBSan. Sampling, not proof; reaches call histories, boundary lengths against every frame-size class and interleavings the unit tests never build.", "5 C01"),
    "C02": ("Fault injection on the decoder's network input: every transit fault operator plus a systematic part (all truncations, boundary values of every length/type/flag field) over seeded histories, "
            "with exact-size heap buffers under ASan/UBSan and ownership re-digests after free / later decodes / decoder destruction. Exhaustive only inside the stated sweep bounds.", "5 C02"),
    "C03": ("Fault operators (truncate at every length up to header+8, every boundary value of every inner length field) over a seeded corpus of real payloads, ASan as monitor plus explicit "
            "(pointer,length) view checks of every const accessor; both directly on the validators and in transit through the decoder.", "5 C03"),
    "C04": ("Interoperability with an independent stub peer (wire.h) over decoder histories with truncation/padding faults; RefDecoder field-by-field oracle with a deliberately three-valued validity "
            "classification (must-valid / must-invalid / unspecified).", "5 C04"),
    "C05": ("Seeded search over interleavings of per-link FIFO endpoint streams on the simulated network, with wrap-around counters, zero-length segments and trailing bytes; strict RefDecoder oracle plus "
            "sender-side end-to-end expectation per frame.", "5 C05"),
    "C06": ("Fault sequences over frame streams (random, plus in the thorough tier a systematic sweep of every single fault and fault pair over base streams); safety and bounded-recovery oracle "
            "over the recorded history. Exhaustive only inside the sweep bounds.", "5 C06"),
    "C07": ("Histories of encode calls on long-lived encoders with boundary-biased lengths and the whole DataContext domain; independent frame walker over every produced frame.", "5 C07"),
    "C08": ("Same runs as C07; protocol rule checks and structural equality with the reference greedy packer.", "5 C08"),
    "C09": ("Histories of reconfiguration, restart and encode events incl. runs long enough to wrap the 16-bit counter; header bytes of every frame against RefCounter.", "5 C09"),
    "C10": ("History-vs-fresh-instance differential between two real encoders; no model, hence no oracle imprecision.", "5 C10"),
    "C13": ("Producer/consumer agreement across the simulated wire for long-lived, re-used payload objects: getters, layout rendering, fresh-object differential, own validator, decoder acceptance.", "5 C13"),
    "C15": ("Foreign-peer interoperability: stub TECMP device with arbitrary header fields and consistent/inconsistent inner lengths; RefTecmp oracle; both entry points compared.", "5 C15"),
    "C16": ("Update histories driven by what a lossy, duplicating, reordering simulated network delivers from several devices, interleaved with operator actions; full comparison with the reference map "
            "after every operation.", "5 C16"),
    "C17": ("Hidden-state invariant over fault-laden histories observed through the guarded read-only hook after every decode call, plus emptiness at quiescence; soak runs in the thorough tier.", "5 C17"),
    "C18": ("Real-vs-real differential: shared decoder against per-endpoint projection decoders over hostile interleaved histories.", "5 C18"),
    "C19": ("Real threads parked and released at compiler-inserted callbacks (every load, store and edge of library code) by a seeded scheduler; per-thread result digests against solo runs and a "
            "vector-clock happens-before detector over the recorded accesses; plus a second engine that interleaves the same instances on one thread with neighbour-instance floods and compares each workload with itself run alone.", "5 C19"),
    "C20": ("Fresh heap and stack contents as environment nondeterminism: every plan executed under three fill patterns with bit-identical outputs demanded, plus valgrind memcheck definedness of every "
            "output byte and branch.", "5 C20"),
}

TECHNIQUE = {
    "C01": "deterministic simulation, fault-free network configuration, seeded interleaving + strict end-to-end oracle",
    "C02": "deterministic simulation with fault injection on the decoder input (truncate/set-field/flip/pad/splice/replay) under ASan/UBSan",
    "C03": "fault injection (truncation / inner-length corruption) over a seeded payload corpus with accessor view checks under ASan",
    "C04": "deterministic simulation with an independent stub peer and truncation/padding faults; reference-decoder oracle",
    "C05": "deterministic simulation: seeded search over network interleavings; reference reassembly model",
    "C06": "deterministic simulation with fault injection (drop/dup/reorder/partition/corrupt) incl. systematic single/pair fault sweep; history oracle",
    "C07": "deterministic simulation of encoder call histories; independent frame walker",
    "C08": "deterministic simulation of encoder call histories; reference greedy packer",
    "C09": "deterministic simulation of configuration/restart/encode histories incl. counter wrap; reference counter",
    "C10": "deterministic simulation: long-lived vs fresh encoder differential over call histories",
    "C13": "deterministic simulation of re-used builder objects across encode -> wire -> decode; rendering + fresh-object differential",
    "C15": "deterministic simulation with a stub TECMP peer and inner-length faults; reference converter",
    "C16": "deterministic simulation: lossy network + operator events; reference map checked after every step",
    "C17": "deterministic simulation with fault injection; hidden pending table (guarded hook) vs reference model after every call",
    "C18": "deterministic simulation: shared vs per-endpoint projection decoders (real-vs-real differential) over hostile histories",
    "C19": "deterministic simulation of thread schedules: seeded scheduler at instrumented loads/stores + happens-before race detector; seeded single-thread interleaving of instances with neighbour floods (result differential)",
    "C20": "deterministic simulation of fresh-memory contents: fill-pattern differential + valgrind definedness",
}

NOT_APPLICABLE = [
    {"property_id": "C11", "reason": "per-field setter/getter algebra of one isolated in-memory object: no party, stream, fault, schedule or history a simulator could vary (DESIGN.md section 6)"},
    {"property_id": "C12", "reason": "static wire-layout table check over field values of isolated objects; nothing for a scheduler or fault injector to decide (DESIGN.md section 6)"},
    {"property_id": "C14", "reason": "copy/move/assign/equality laws of single value objects; no interleaving, fault or multi-party history can change the outcome (DESIGN.md section 6)"},
]


def main():
    commits = subprocess.run(["git", "-C", "/repo", "log", "--format=%h %s"], stdout=subprocess.PIPE, text=True).stdout.splitlines()
    hooks = [c.split()[0] for c in commits if c.split(" ", 1)[1].startswith("verif hook")]
    checks = []
    for pid in sorted(PROPS):
        cfg = PROPS[pid]
        text, ref = LEVEL_TEXT[pid]
        checks.append({
            "property_id": pid,
            "quick_cmd": "./check %s quick" % pid,
            "thorough_cmd": "./check %s thorough" % pid,
            "evidence_file": "/verif/evidence/%s.json" % pid,
            "replay_cmd_template": "./check --replay {path}",
            "engine": "simcheck-" + cfg["variant"],
            "level_claimed": {"category": cfg["level"], "text": text, "design_ref": "DESIGN.md section " + ref},
            "level_note": "trusted base: wire.h layout tables, the reference models in sim/models.h, the simulator itself; " + cfg["sanitizers"][:120],
            "technique": TECHNIQUE[pid],
        })
    claimed = set(PROPS)
    na = [n for n in NOT_APPLICABLE if n["property_id"] not in claimed]
    manifest = {
        "version": 1,
        "setup_cmd": "./build.sh all",
        "hooks": {
            "guard": "ASAM_CMP_LIB_VERIF",
            "enable": "build.sh compiles /repo/src/*.cpp directly with -DASAM_CMP_LIB_VERIF (the repository's own CMake build never defines it)",
            "baseline_off_cmd": "cmake -G Ninja -S /repo -B /repo/_build >/dev/null && cmake --build /repo/_build && ctest --test-dir /repo/_build -j8 --timeout 900",
            "source_commits": hooks,
            "add_only": True,
        },
        "engines": [
            {"name": "simcheck-asan", "path": "/verif/.build/asan/simcheck", "serves_properties": sorted(p for p in PROPS if PROPS[p]["variant"] == "asan"),
             "kind_free_text": "seeded discrete-event simulator + fault operators + reference models, library and simulator under ASan/UBSan; library also compiled with trace-pc-guard (work bound) and trace-cmp (frames / calls derived from comparison operands); also the second engine of C19 (instances interleaved on one thread)"},
            {"name": "simcheck-plain", "path": "/verif/.build/plain/simcheck", "serves_properties": sorted(p for p in PROPS if PROPS[p]["variant"] == "plain"),
             "kind_free_text": "same simulator, g++ -O2, replaced operator new/delete with seeded fill patterns + stack scribbler; also run under valgrind; also the second-compiler phase (gcc-O2, 10 % of the budget) of every asan-variant check"},
            {"name": "simcheck-sched", "path": "/verif/.build/sched/simcheck", "serves_properties": sorted(p for p in PROPS if PROPS[p]["variant"] == "sched"),
             "kind_free_text": "same simulator on real threads, library compiled with -fsanitize-coverage=trace-pc-guard,trace-loads,trace-stores and scheduled by a seeded baton scheduler"},
        ],
        "checks": checks,
        "not_applicable": na,
        "notes": "Deterministic simulation with fault injection; see DESIGN.md. Replay files are minimised plans under /verif/replays; known_findings.txt lists recorded and fixed defects (13 fixed, none open). Sensitivity: 241 changes written by independent sub-agents under /verif/seeded (230 caught, 5 documented open misses, 3 benign, 3 outside the property), plus mutants/ (catalogue, fix reversals, benign refactorings); ./selftest sensitivity re-measures all of them.",
    }
    with open(os.path.join(VERIF, "MANIFEST.json"), "w") as f:
        json.dump(manifest, f, indent=1)
    print("MANIFEST.json written with %d checks" % len(checks))


if __name__ == "__main__":
    main()
