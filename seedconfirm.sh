#!/bin/bash
# seedconfirm.sh <prop> <change dir> [worktree] -- confirm a seeded change independently:
# applies, builds warning-free with the repo's CMake flags, runs ctest, demo must fail; reverted: demo must pass.
set -u
PROP=$1; CH=$2; WT=${3:-/tmp/seed-$PROP}
cd "$WT" || exit 2
git checkout -q -- . ; git apply --check "$CH/patch.diff" || { echo "PATCH does not apply"; exit 2; }
[ -d _build ] || cmake -G Ninja -B _build -S . >/dev/null
DEMOCMD=$(grep -m1 -o 'g++ .*' "$CH/demo.cpp" | sed 's/\*\/.*//; s/`.*//')
build_demo() { ( cd "$CH" && eval "$DEMOCMD" ) ; }
git apply "$CH/patch.diff"
if ! cmake --build _build 2>&1 | tail -3 | grep -q "warning\|error"; then :; fi
cmake --build _build > /tmp/sc-build.log 2>&1 || { echo "BUILD FAILED with change"; tail -5 /tmp/sc-build.log; git checkout -q -- .; exit 1; }
grep -qi "warning" /tmp/sc-build.log && echo "WARNINGS in build"
ctest --test-dir _build 2>&1 | grep -q "100% tests passed" && echo "ctest with change: pass" || { echo "ctest with change: FAIL"; git checkout -q -- .; exit 1; }
build_demo > /tmp/sc-demo.log 2>&1 || { echo "demo build failed: $DEMOCMD"; tail -5 /tmp/sc-demo.log; }
DEMOBIN=$(echo "$DEMOCMD" | grep -o '\-o [^ ]*' | awk '{print $2}')
case "$DEMOBIN" in /*) RUN="$DEMOBIN";; *) RUN="./$DEMOBIN";; esac
( cd "$CH" && timeout 600 ${RUNWRAP:-} $RUN > /tmp/sc-run1.log 2>&1 ); RC1=$?
echo "demo with change: rc=$RC1 $(tail -1 /tmp/sc-run1.log | cut -c1-160)"
git checkout -q -- .
cmake --build _build > /tmp/sc-build2.log 2>&1
build_demo > /dev/null 2>&1
( cd "$CH" && timeout 600 ${RUNWRAP:-} $RUN > /tmp/sc-run2.log 2>&1 ); RC2=$?
echo "demo without change: rc=$RC2"
rm -f "$CH/$DEMOBIN" "$DEMOBIN" 2>/dev/null
[ $RC1 -ne 0 ] && [ $RC2 -eq 0 ] && echo CONFIRMED || echo NOT-CONFIRMED
